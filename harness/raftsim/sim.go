package raftsim

import (
	"fmt"
	"github.com/lni/dragonboat/v4/internal/vfs"
	"math/rand"
	"os"
	"reflect"
	"sort"
	"unsafe"

	"github.com/lni/goutils/random"

	"github.com/lni/dragonboat/v4/config"
	pb "github.com/lni/dragonboat/v4/raftpb"
)

// Options selects the shape and the hostility of one simulated execution.
type Options struct {
	Seed       int64
	HealSeed   int64 // re-seeds the healing phase only
	Steps      int
	Voters     int
	NonVotings int
	// PreferNonVoting: membership change requests add the non-voting members before anything else
	PreferNonVoting bool
	// LongPartitions: partition phases last several election timeouts
	LongPartitions bool
	// RealStore: every replica keeps its raft state in a real sharded Pebble log store (in-memory
	// file system), reopened at every restart of the replica
	RealStore bool
	// RealStoreTan: the real log store is Tan instead of sharded Pebble
	RealStoreTan bool
	Witnesses    int
	PreVote      bool
	CheckQuorum  bool
	Ordered      bool
	AllowDup     bool // duplicate messages (never for C01 histories)
	Overhead     uint64
	ElectionRTT  uint64
	HeartbeatRTT uint64
	Keys         int
	// weights (relative) of the scheduler's actions
	WCrash, WSnapshot, WConfigChange, WTransfer, WRead, WPropose, WPartition int
	HealRounds                                                               int // election timeouts of fair schedule after the fault prefix (C17)
	NoFaults                                                                 bool
	// NoDupReadIndex: never duplicate a ReadIndex request message (heartbeats,
	// responses and everything else may still be duplicated)
	NoDupReadIndex bool
	Porcupine      bool // cross-check the history with porcupine
	// MaxInMem > 0: rate limiting (config.MaxInMemLogSize); proposals carry Pad more bytes; the
	// mini-node does not hand proposals to raft while the peer reports RateLimited (node.go
	// handleEvents: paused)
	MaxInMem uint64
	Pad      int
	// MuteTransferTarget: a third of the partitions silence the target of the latest leader transfer
	MuteTransferTarget bool
	// StepDuringCC: in a quarter of the membership changes a replica applies, its step worker runs
	// one iteration (with the ticks that piled up meanwhile) after the state machine manager has
	// done its part and before node.ApplyConfigChange hands the change to the raft core (the two
	// workers only meet at raftMu)
	StepDuringCC bool
}

type flight struct {
	m    pb.Message
	blob []byte
	seq  int
	// until: a message held back by the network is not deliverable before this step
	until int
}

// Sim is one simulated shard.
type Sim struct {
	opt      Options
	rng      *rand.Rand
	replicas map[uint64]*replica
	order    []uint64
	net      []*flight
	seq      int
	stepNo   int
	blocked  map[[2]uint64]bool
	mon      *monitors
	nextID   uint64 // next replica id for joins
	nextKey  uint64
	// lastTransferTarget: target of the most recent leadership transfer request
	lastTransferTarget uint64
	// held: messages delayed by the network for hundreds of steps (they re-enter net when due)
	held     []*flight
	trace    []string
	traceOn  bool
	healing  bool
	phase    int
	phaseEnd int
}

const shardID = 1

// reseedElectionRNG makes the global election timeout jitter deterministic.
func reseedElectionRNG(seed int64) {
	v := reflect.ValueOf(random.LockGuardedRand).Elem().FieldByName("source")
	p := unsafe.Pointer(v.UnsafeAddr())
	*(*rand.Source64)(p) = rand.New(rand.NewSource(seed))
}

func (s *Sim) newConfig(id uint64, nonVoting, witness bool) config.Config {
	return config.Config{
		ShardID:             shardID,
		ReplicaID:           id,
		ElectionRTT:         s.opt.ElectionRTT,
		HeartbeatRTT:        s.opt.HeartbeatRTT,
		CheckQuorum:         s.opt.CheckQuorum,
		PreVote:             s.opt.PreVote,
		OrderedConfigChange: s.opt.Ordered,
		CompactionOverhead:  s.opt.Overhead,
		IsNonVoting:         nonVoting,
		IsWitness:           witness,
		MaxInMemLogSize:     s.opt.MaxInMem,
	}
}

// NewSim builds the shard: the initial members are all regular voters;
// non-voting members and witnesses join through membership changes.
func NewSim(opt Options, sink Sink) *Sim {
	s := &Sim{
		opt:      opt,
		rng:      rand.New(rand.NewSource(opt.Seed)),
		replicas: map[uint64]*replica{},
		blocked:  map[[2]uint64]bool{},
	}
	s.mon = newMonitors(s, sink)
	reseedElectionRNG(opt.Seed ^ 0x5eed)
	members := map[uint64]string{}
	for i := 1; i <= opt.Voters; i++ {
		members[uint64(i)] = fmt.Sprintf("a%d", i)
	}
	s.nextID = uint64(opt.Voters) + 1
	for i := 1; i <= opt.Voters; i++ {
		id := uint64(i)
		r := &replica{sim: s, id: id, cfg: s.newConfig(id, false, false), addr: members[id],
			store: s.newStore(id)}
		s.replicas[id] = r
		s.order = append(s.order, id)
		r.start(members, true)
	}
	return s
}

// newStore returns the durable store of a new replica: the in-memory one, or (Options.RealStore)
// the same shadow on top of a real sharded Pebble log store on its own in-memory file system.
func (s *Sim) newStore(id uint64) *memStore {
	st := newMemStore(shardID, id)
	if s.opt.RealStore {
		st.realFS = vfs.NewMemFS()
		st.realTan = s.opt.RealStoreTan
		st.openReal()
	}
	return st
}

func (s *Sim) tr(format string, a ...interface{}) {
	if s.traceOn {
		s.trace = append(s.trace, fmt.Sprintf("%d: ", s.stepNo)+fmt.Sprintf(format, a...))
	}
}

func (s *Sim) aliveIDs() []uint64 {
	var out []uint64
	for _, id := range s.order {
		r := s.replicas[id]
		if r.alive && !r.removed {
			out = append(out, id)
		}
	}
	return out
}

func (s *Sim) pick(ids []uint64) *replica {
	if len(ids) == 0 {
		return nil
	}
	return s.replicas[ids[s.rng.Intn(len(ids))]]
}

// send puts a message on the simulated network.
var traceMsgs = os.Getenv("VERIF_TRACE_MSGS") != ""

func msgStr(m pb.Message) string {
	return fmt.Sprintf("%s %d->%d t%d li%d lt%d c%d rej%v hint%d/%d ents%d", m.Type, m.From, m.To, m.Term, m.LogIndex, m.LogTerm, m.Commit, m.Reject, m.Hint, m.HintHigh, len(m.Entries))
}

func (s *Sim) send(from *replica, m pb.Message) {
	if traceMsgs {
		s.tr("send %s", msgStr(m))
	}
	s.mon.onSend(from, m)
	f := &flight{m: cloneMsg(m), seq: s.seq}
	s.seq++
	if m.Type == pb.InstallSnapshot {
		// the transport drops its reference once the image has been read
		defer func() { must(m.Snapshot.Unref()) }()
	}
	if m.Type == pb.InstallSnapshot && !m.Snapshot.Witness {
		b, ok := from.store.blobs[m.Snapshot.Index]
		if !ok {
			// the image is gone (compacted): the transport would report failure
			from.inbox = append(from.inbox, pb.Message{Type: pb.SnapshotStatus, From: m.To, Reject: true})
			return
		}
		f.blob = b
	}
	s.net = append(s.net, f)
	if len(s.net) > 4000 {
		// bounded network buffer: oldest messages are lost
		s.dropAt(0)
	}
}

func cloneMsg(m pb.Message) pb.Message {
	c := m
	c.Snapshot = wireSnapshot(m.Snapshot)
	if len(m.Entries) > 0 {
		c.Entries = make([]pb.Entry, len(m.Entries))
		for i := range m.Entries {
			c.Entries[i] = cloneEntry(m.Entries[i])
		}
	}
	return c
}

func (s *Sim) linkBlocked(from, to uint64) bool { return s.blocked[[2]uint64{from, to}] }

func (s *Sim) dropAt(i int) {
	f := s.net[i]
	s.net = append(s.net[:i], s.net[i+1:]...)
	s.mon.count("msgs_dropped", 1)
	s.snapshotStatus(f, true)
}

// snapshotStatus is what the transport reports to the sender once a snapshot
// transfer finished or failed.
func (s *Sim) snapshotStatus(f *flight, failed bool) {
	if f.m.Type != pb.InstallSnapshot {
		return
	}
	if snd, ok := s.replicas[f.m.From]; ok && snd.alive {
		snd.inbox = append(snd.inbox, pb.Message{Type: pb.SnapshotStatus, From: f.m.To, Reject: failed})
	}
}

// deliverAt hands message i to its destination (or loses it if the
// destination is down or the link is cut).
func (s *Sim) deliverAt(i int, dup bool) {
	f := s.net[i]
	if !dup {
		s.net = append(s.net[:i], s.net[i+1:]...)
	}
	dst, ok := s.replicas[f.m.To]
	if !ok || !dst.alive || dst.removed || s.linkBlocked(f.m.From, f.m.To) {
		if !dup {
			s.mon.count("msgs_lost_unreachable", 1)
			s.snapshotStatus(f, true)
			if snd, ok := s.replicas[f.m.From]; ok && snd.alive && s.rng.Intn(4) == 0 {
				snd.inbox = append(snd.inbox, pb.Message{Type: pb.Unreachable, From: f.m.To})
			}
		}
		return
	}
	m := cloneMsg(f.m)
	if traceMsgs {
		s.tr("deliver(dup=%v held=%v) %s", dup, f.until > 0, msgStr(m))
	}
	if m.Type == pb.InstallSnapshot {
		if !m.Snapshot.Witness {
			// the receiving transport stored the image durably before passing the
			// message on
			dst.store.blobs[m.Snapshot.Index] = f.blob
			m.Snapshot.Filepath = fmt.Sprintf("mem://%d/%d", dst.id, m.Snapshot.Index)
		}
		if !dup {
			s.snapshotStatus(f, false)
		}
	}
	if dup {
		s.mon.count("msgs_duplicated", 1)
	} else {
		s.mon.count("msgs_delivered", 1)
	}
	s.mon.onDeliver(dst, m)
	dst.inbox = append(dst.inbox, m)
}

// releaseHeld puts the delayed messages that are due (or all of them) back
// into the network.
func (s *Sim) releaseHeld(all bool) {
	if len(s.held) == 0 {
		return
	}
	keep := s.held[:0]
	for _, f := range s.held {
		if all || f.until <= s.stepNo {
			s.net = append(s.net, f)
			s.mon.count("msgs_released_after_long_delay", 1)
		} else {
			keep = append(keep, f)
		}
	}
	s.held = keep
}

func (s *Sim) guard(r *replica, what string, f func()) {
	defer func() {
		if x := recover(); x != nil {
			s.mon.sutPanic(r, what, x)
		}
	}()
	f()
}

const (
	phCalm = iota
	phLossy
	phPartition
	phCrashy
	phMixed
)

func (s *Sim) nextPhase() {
	if s.opt.NoFaults {
		s.phase, s.phaseEnd = phCalm, s.stepNo+1000
		return
	}
	prev := s.phase
	x := s.rng.Intn(100)
	switch {
	case x < 40:
		s.phase = phCalm
	case x < 55:
		s.phase = phLossy
	case x < 72:
		s.phase = phPartition
	case x < 87:
		s.phase = phCrashy
	default:
		s.phase = phMixed
	}
	s.phaseEnd = s.stepNo + 120 + s.rng.Intn(380)
	if s.opt.LongPartitions && s.phase == phPartition {
		// long enough for the other side to elect a leader and complete writes while the cut lasts
		s.phaseEnd = s.stepNo + 500 + s.rng.Intn(1000)
	}
	if prev == phPartition || prev == phMixed || s.phase == phCalm {
		if len(s.blocked) > 0 {
			s.blocked = map[[2]uint64]bool{}
			s.mon.count("heals", 1)
			s.tr("heal")
		}
	}
	if s.phase == phPartition || (s.phase == phMixed && s.rng.Intn(2) == 0) {
		s.actPartition()
	}
	if s.phase == phCalm {
		// bring stopped replicas back, most of the time
		for _, id := range s.order {
			r := s.replicas[id]
			if !r.alive && !r.removed && s.rng.Intn(4) != 0 {
				s.restart(r)
			}
		}
	}
	s.mon.count(fmt.Sprintf("phases_%d", s.phase), 1)
	s.tr("phase %d until %d", s.phase, s.phaseEnd)
}

// Step performs one scheduler action of the fault prefix.
func (s *Sim) Step() {
	s.stepNo++
	s.releaseHeld(false)
	if s.stepNo >= s.phaseEnd {
		s.nextPhase()
	}
	o := &s.opt
	alive := s.aliveIDs()
	wTick, wStep, wApply, wDeliver := 10, 34, 16, 30
	wDrop, wDup, wCrash, wPart := 0, 0, 0, 0
	switch s.phase {
	case phLossy:
		wDrop, wDup = 5, 3
	case phCrashy:
		wCrash = 2 * o.WCrash
	case phPartition:
		wPart = 0
		if o.LongPartitions {
			wTick = 25
		}
	case phMixed:
		wDrop, wDup, wCrash, wPart = 3, 2, o.WCrash, o.WPartition
	}
	if !o.AllowDup {
		wDup = 0
	}
	weights := []int{wTick, wStep, wApply, wDeliver, wDrop, wDup,
		o.WPropose, o.WRead, o.WConfigChange, o.WTransfer, o.WSnapshot, wCrash, wPart}
	total := 0
	for _, w := range weights {
		total += w
	}
	x := s.rng.Intn(total)
	act := 0
	for i, w := range weights {
		if x < w {
			act = i
			break
		}
		x -= w
	}
	switch act {
	case 0: // tick: usually the clock of every replica advances, sometimes of one (skew)
		if s.rng.Intn(4) == 0 {
			if r := s.pick(alive); r != nil {
				r.inbox = append(r.inbox, pb.Message{Type: pb.LocalTick})
			}
		} else {
			for _, id := range alive {
				r := s.replicas[id]
				r.inbox = append(r.inbox, pb.Message{Type: pb.LocalTick})
			}
		}
	case 1: // step
		if r := s.pick(alive); r != nil {
			cp := cpNone
			if (s.phase == phCrashy || s.phase == phMixed) && o.WCrash > 0 && s.rng.Intn(60) == 0 {
				cp = 1 + s.rng.Intn(3)
			}
			s.guard(r, "step", func() {
				if r.step(cp) {
					s.tr("crash %d inside step at point %d", r.id, cp)
					s.mon.count(fmt.Sprintf("crash_in_step_point_%d", cp), 1)
				}
			})
		}
	case 2: // apply
		if r := s.pick(alive); r != nil {
			s.guard(r, "apply", func() { r.apply() })
			if r.lastStep {
				// the step worker iteration that overlaps the self-removal just applied
				s.guard(r, "step", func() { r.step(cpNone) })
			}
		}
	case 3: // deliver a few messages
		k := 1 + s.rng.Intn(2*len(s.order)+1)
		for ; k > 0 && len(s.net) > 0; k-- {
			// mostly the oldest messages, sometimes any (reordering, delay)
			i := 0
			reorder := 10
			if s.phase == phLossy || s.phase == phMixed {
				reorder = 3
			}
			if s.rng.Intn(reorder) == 0 {
				i = s.rng.Intn(len(s.net))
			} else if len(s.net) > 3 {
				i = s.rng.Intn(3)
			}
			if (s.rng.Intn(6*reorder) == 0 || (s.net[i].m.Type == pb.TimeoutNow && s.rng.Intn(3) == 0)) && s.net[i].m.Type != pb.InstallSnapshot {
				// a long delay: the message arrives after everything sent in the next
				// hundreds of steps (term changes, membership changes, restarts)
				f := s.net[i]
				s.net = append(s.net[:i], s.net[i+1:]...)
				f.until = s.stepNo + 60 + s.rng.Intn(1200)
				s.held = append(s.held, f)
				s.mon.count("msgs_held_back", 1)
				continue
			}
			s.deliverAt(i, false)
		}
	case 4: // drop
		if len(s.net) > 0 {
			s.dropAt(s.rng.Intn(len(s.net)))
		}
	case 5: // duplicate
		if len(s.net) > 0 {
			i := s.rng.Intn(len(s.net))
			if s.opt.NoDupReadIndex && s.net[i].m.Type == pb.ReadIndex {
				break
			}
			s.deliverAt(i, true)
		}
	case 6:
		s.actPropose(s.pick(alive))
	case 7:
		s.actRead(s.pick(alive))
	case 8:
		s.actConfigChange(alive)
	case 9:
		if r := s.pick(alive); r != nil && !r.cfg.IsWitness {
			t := s.order[s.rng.Intn(len(s.order))]
			r.transferTo = t
			s.lastTransferTarget = t
			s.mon.count("leader_transfer_requests", 1)
		}
	case 10:
		if r := s.pick(alive); r != nil {
			s.guard(r, "snapshot", func() {
				if r.takeSnapshot() {
					s.tr("snapshot %d at %d", r.id, r.ssIndex)
				}
			})
		}
	case 11:
		s.actCrashRestart()
	case 12:
		s.actPartition()
	}
}

// canCrash keeps a majority of the original voters up most of the time so that
// runs make progress; full outages are still produced by actCrashRestart.
func (s *Sim) canCrash(r *replica) bool { return true }

func (s *Sim) actPropose(r *replica) {
	if r == nil || r.cfg.IsWitness {
		return
	}
	s.nextKey++
	key := byte(s.rng.Intn(s.opt.Keys))
	id := s.nextKey
	cmd := append([]byte{key}, putU64(id)...)
	if s.opt.Pad > 0 {
		cmd = append(cmd, make([]byte, s.rng.Intn(s.opt.Pad+1))...)
	}
	e := pb.Entry{
		Type:     pb.ApplicationEntry,
		Key:      id,
		ClientID: 0x1000000 + id, // NoOP session of a one-shot client
		SeriesID: 0,
		Cmd:      cmd,
	}
	r.pendingProps = append(r.pendingProps, e)
	s.mon.onProposeCall(r, key, id)
}

func (s *Sim) actRead(r *replica) {
	if r == nil || r.cfg.IsWitness {
		return
	}
	key := byte(s.rng.Intn(s.opt.Keys))
	w := &readWait{key: key, issued: s.stepNo}
	w.opID = s.mon.onReadCall(r, key)
	r.pendingReads = append(r.pendingReads, w)
}

func (s *Sim) actConfigChange(alive []uint64) {
	r := s.pick(alive)
	if r == nil || r.cfg.IsWitness {
		return
	}
	s.nextKey++
	key := s.nextKey
	var cc pb.ConfigChange
	kind := s.rng.Intn(10)
	members := s.mon.latestMembership()
	retryNV := uint64(0)
	if s.opt.PreferNonVoting && len(members.NonVotings) == 0 {
		// mixed-role shapes first; a request that was dropped is repeated for the same replica
		kind = 2
		for _, id := range s.order {
			x := s.replicas[id]
			_, removed := members.Removed[id]
			_, voter := members.Addresses[id]
			if x.cfg.IsNonVoting && !removed && !voter {
				retryNV = id
			}
		}
	}
	ccid := uint64(0)
	if s.opt.Ordered {
		ccid = members.ConfigChangeId
		if s.rng.Intn(5) == 0 {
			ccid = uint64(s.rng.Intn(int(ccid + 2))) // sometimes stale
		}
	}
	switch {
	case retryNV != 0:
		cc = pb.ConfigChange{Type: pb.AddNonVoting, ReplicaID: retryNV, Address: fmt.Sprintf("a%d", retryNV)}
	case kind < 2 && s.countKind(false, false) < 5: // add voter
		id := s.nextID
		s.nextID++
		cc = pb.ConfigChange{Type: pb.AddNode, ReplicaID: id, Address: fmt.Sprintf("a%d", id)}
		s.join(id, false, false)
	case kind < 4 && s.countKind(true, false) < s.opt.NonVotings:
		id := s.nextID
		s.nextID++
		cc = pb.ConfigChange{Type: pb.AddNonVoting, ReplicaID: id, Address: fmt.Sprintf("a%d", id)}
		s.join(id, true, false)
	case kind < 6 && s.countKind(false, true) < s.opt.Witnesses:
		id := s.nextID
		s.nextID++
		cc = pb.ConfigChange{Type: pb.AddWitness, ReplicaID: id, Address: fmt.Sprintf("a%d", id)}
		s.join(id, false, true)
	case kind < 7: // promote a non-voting member
		var nv []uint64
		for id := range members.NonVotings {
			nv = append(nv, id)
		}
		if len(nv) == 0 {
			return
		}
		sort.Slice(nv, func(i, j int) bool { return nv[i] < nv[j] })
		id := nv[s.rng.Intn(len(nv))]
		cc = pb.ConfigChange{Type: pb.AddNode, ReplicaID: id, Address: members.NonVotings[id]}
	case kind < 9: // remove someone (possibly invalid)
		id := s.order[s.rng.Intn(len(s.order))]
		if s.lastTransferTarget != 0 && s.rng.Intn(3) == 0 {
			// the target of the latest leadership transfer: its TimeoutNow may still be in flight
			id = s.lastTransferTarget
			s.mon.count("config_change_removes_transfer_target", 1)
		}
		if len(members.Addresses) <= 2 && s.rng.Intn(4) != 0 {
			return
		}
		cc = pb.ConfigChange{Type: pb.RemoveNode, ReplicaID: id}
	default: // invalid request: re-add a removed id or duplicate address
		if len(members.Removed) > 0 {
			var rm []uint64
			for id := range members.Removed {
				rm = append(rm, id)
			}
			sort.Slice(rm, func(i, j int) bool { return rm[i] < rm[j] })
			id := rm[s.rng.Intn(len(rm))]
			cc = pb.ConfigChange{Type: pb.AddNode, ReplicaID: id, Address: fmt.Sprintf("a%d", id)}
		} else {
			cc = pb.ConfigChange{Type: pb.AddNode, ReplicaID: 90 + uint64(s.rng.Intn(5)), Address: "a1"}
		}
	}
	cc.ConfigChangeId = ccid
	r.pendingCC = append(r.pendingCC, ccReq{cc: cc, key: key})
	s.mon.count("config_change_requests", 1)
	s.tr("cc request at %d: %v %d ccid %d", r.id, cc.Type, cc.ReplicaID, ccid)
}

func (s *Sim) countKind(nonVoting, witness bool) int {
	n := 0
	for _, r := range s.replicas {
		if r.cfg.IsNonVoting == nonVoting && r.cfg.IsWitness == witness {
			n++
		}
	}
	return n
}

// join starts a replica that joins an existing shard (join=true, no initial
// members).
func (s *Sim) join(id uint64, nonVoting, witness bool) {
	r := &replica{sim: s, id: id, cfg: s.newConfig(id, nonVoting, witness), addr: fmt.Sprintf("a%d", id),
		store: s.newStore(id), joined: true}
	s.replicas[id] = r
	s.order = append(s.order, id)
	s.guard(r, "join", func() { r.start(nil, false) })
	s.tr("join %d nonVoting=%v witness=%v", id, nonVoting, witness)
}

func (s *Sim) actCrashRestart() {
	var down, up []uint64
	for _, id := range s.order {
		r := s.replicas[id]
		if r.removed {
			continue
		}
		if r.alive {
			up = append(up, id)
		} else {
			down = append(down, id)
		}
	}
	if len(down) > 0 && (s.rng.Intn(3) != 0 || len(up) == 0) {
		r := s.replicas[down[s.rng.Intn(len(down))]]
		s.restart(r)
		return
	}
	if len(up) > 0 {
		r := s.replicas[up[s.rng.Intn(len(up))]]
		s.guard(r, "crash", func() { r.crash() })
		s.mon.count("crashes", 1)
		s.tr("crash %d", r.id)
	}
}

func (s *Sim) restart(r *replica) {
	s.guard(r, "restart", func() { r.start(nil, false) })
	s.mon.count("restarts", 1)
	s.tr("restart %d", r.id)
}

func (s *Sim) actPartition() {
	ids := append([]uint64(nil), s.order...)
	if s.opt.MuteTransferTarget && s.lastTransferTarget != 0 && s.rng.Intn(3) == 0 {
		// the target of the latest leadership transfer hears everything and is heard by nobody: it
		// campaigns (TimeoutNow) or wins a PreVote round, its vote requests are lost, the leader keeps
		// its quorum - a replica that is ahead in term rejoins when the partition ends
		t := s.lastTransferTarget
		for _, b := range ids {
			if b != t {
				s.blocked[[2]uint64{t, b}] = true
			}
		}
		s.mon.count("partitions_transfer_target_muted", 1)
		s.tr("mute transfer target %d", t)
		return
	}
	pick := s.rng.Intn(4)
	if pick == 3 {
		// the present leader keeps only the members that do not count for quorums (non-voting
		// replicas) on its side: everything it hears may look like support, none of it is
		l := s.mon.someLeader()
		mem := s.mon.latestMembership()
		if l == 0 || len(mem.NonVotings) == 0 {
			pick = s.rng.Intn(3)
		} else {
			side := map[uint64]bool{l: true}
			for id := range mem.NonVotings {
				side[id] = true
			}
			for _, a := range ids {
				for _, b := range ids {
					if side[a] != side[b] {
						s.blocked[[2]uint64{a, b}] = true
					}
				}
			}
			s.mon.count("partitions_leader_with_non_voting_members", 1)
			s.tr("partition leader %d + non-voting members | voters", l)
			return
		}
	}
	switch pick {
	case 0: // symmetric split
		s.rng.Shuffle(len(ids), func(i, j int) { ids[i], ids[j] = ids[j], ids[i] })
		k := 1 + s.rng.Intn(len(ids))
		for _, a := range ids[:k] {
			for _, b := range ids[k:] {
				s.blocked[[2]uint64{a, b}] = true
				s.blocked[[2]uint64{b, a}] = true
			}
		}
		s.mon.count("partitions_symmetric", 1)
		s.tr("partition %v | %v", ids[:k], ids[k:])
	case 1: // isolate the present leader (if any) in one or both directions
		l := s.mon.someLeader()
		if l == 0 {
			return
		}
		both := s.rng.Intn(2) == 0
		for _, b := range ids {
			if b != l {
				s.blocked[[2]uint64{l, b}] = true
				if both {
					s.blocked[[2]uint64{b, l}] = true
				}
			}
		}
		s.mon.count("partitions_leader_isolated", 1)
		s.tr("isolate leader %d both=%v", l, both)
	case 2: // one directional cut of a single link
		a := ids[s.rng.Intn(len(ids))]
		b := ids[s.rng.Intn(len(ids))]
		if a != b {
			s.blocked[[2]uint64{a, b}] = true
			s.mon.count("partitions_one_way", 1)
			s.tr("cut %d->%d", a, b)
		}
	}
}

// Heal ends the fault prefix: all links up, every stopped replica that is
// still a member restarted, then a fair schedule: FIFO delivery, round-robin
// ticks, steps and applies. It returns after the given number of rounds.
func (s *Sim) Heal(rounds int, each func(round int) bool) {
	s.healing = true
	s.blocked = map[[2]uint64]bool{}
	s.releaseHeld(true)
	reseedElectionRNG(s.opt.Seed ^ s.opt.HealSeed ^ 0x4ea1)
	mem := s.mon.latestMembership()
	for _, id := range s.order {
		r := s.replicas[id]
		if _, gone := mem.Removed[id]; gone {
			// an operator stops replicas that have been removed from the shard
			if r.alive {
				s.guard(r, "crash", func() { r.crash() })
			}
			r.removed = true
			continue
		}
		if !r.alive && !r.removed {
			s.restart(r)
		}
	}
	for round := 0; round < rounds; round++ {
		s.stepNo++
		for _, id := range s.order {
			r := s.replicas[id]
			if r.alive && !r.removed {
				r.inbox = append(r.inbox, pb.Message{Type: pb.LocalTick})
			}
		}
		for pass := 0; pass < 3; pass++ {
			for _, id := range s.order {
				r := s.replicas[id]
				if r.alive && !r.removed {
					s.guard(r, "step", func() { r.step(cpNone) })
					s.guard(r, "apply", func() { r.apply() })
					if r.lastStep {
						s.guard(r, "step", func() { r.step(cpNone) })
					}
				}
			}
			n := len(s.net)
			for i := 0; i < n && len(s.net) > 0; i++ {
				s.deliverAt(0, false)
			}
		}
		if each != nil && each(round) {
			return
		}
	}
}
