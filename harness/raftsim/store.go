// Package raftsim is engine E1: N real raft.Peer + real logdb.LogReader + real
// rsm.StateMachine per replica, glued by a "mini-node" that follows the order
// of engine.processSteps / node.go, with a simulated network, clock, crashes
// and a global view for the monitors. Single goroutine, deterministic.
package raftsim

import (
	"bytes"
	"fmt"
	"io"
	"sort"

	"github.com/lni/dragonboat/v4/config"
	"github.com/lni/dragonboat/v4/internal/logdb"
	"github.com/lni/dragonboat/v4/internal/logdb/kv/pebble"
	"github.com/lni/dragonboat/v4/internal/rsm"
	"github.com/lni/dragonboat/v4/internal/server"
	"github.com/lni/dragonboat/v4/internal/tan"
	"github.com/lni/dragonboat/v4/internal/vfs"
	"github.com/lni/dragonboat/v4/raftio"
	pb "github.com/lni/dragonboat/v4/raftpb"
	sm "github.com/lni/dragonboat/v4/statemachine"
)

// memStore is the durable state of one simulated replica: exactly what
// SaveRaftState / SaveSnapshots were given, nothing else. It mimics the
// logical behaviour of internal/logdb/db.go (max index record, snapshot
// record) without any real storage. It survives a simulated crash.
type memStore struct {
	shardID   uint64
	replicaID uint64
	state     pb.State
	hasState  bool
	entries   map[uint64]pb.Entry
	maxIndex  uint64
	hasMax    bool
	snapshot  pb.Snapshot
	compacted uint64
	// blobs are the snapshot images on the replica's "disk"
	blobs map[uint64][]byte
	saves int
	// real, when set, is a real log store (sharded Pebble on an in-memory file system) that
	// receives every write and answers every read of the replica; the fields above then are the
	// shadow the monitors use. It is closed and reopened at every restart of the replica.
	real    raftio.ILogDB
	realFS  vfs.IFS
	realTan bool
}

// openReal (re)opens the real log store of the replica.
func (s *memStore) openReal() {
	if s.realFS == nil {
		return
	}
	if s.real != nil {
		must(s.real.Close())
		s.real = nil
	}
	cfg := config.NodeHostConfig{NodeHostDir: "/nh", RTTMillisecond: 10, RaftAddress: "a:1",
		Expert: config.ExpertConfig{FS: s.realFS, LogDB: config.GetTinyMemLogDBConfig()}}
	must(cfg.Prepare())
	var db raftio.ILogDB
	var err error
	if s.realTan {
		must(s.realFS.MkdirAll("/nh/db", 0755))
		db, err = tan.Factory.Create(cfg, nil, []string{"/nh/db"}, []string{"/nh/db"})
	} else {
		db, err = logdb.NewLogDB(cfg, nil, []string{"/nh/db"}, []string{"/nh/db"}, false, true, pebble.NewKVStore)
	}
	must(err)
	s.real = db
}

var _ raftio.ILogDB = (*memStore)(nil)

func newMemStore(shardID, replicaID uint64) *memStore {
	return &memStore{
		shardID: shardID, replicaID: replicaID,
		entries: map[uint64]pb.Entry{},
		blobs:   map[uint64][]byte{},
	}
}

func (s *memStore) Name() string                                         { return "raftsim-mem" }
func (s *memStore) Close() error                                         { return nil }
func (s *memStore) BinaryFormat() uint32                                 { return raftio.PlainLogDBBinVersion }
func (s *memStore) ListNodeInfo() ([]raftio.NodeInfo, error)             { return nil, nil }
func (s *memStore) SaveBootstrapInfo(uint64, uint64, pb.Bootstrap) error { return nil }
func (s *memStore) GetBootstrapInfo(uint64, uint64) (pb.Bootstrap, error) {
	return pb.Bootstrap{}, raftio.ErrNoBootstrapInfo
}

// wireSnapshot returns the snapshot record as it would look after going
// through the wire or the log store (no in-process reference counting state).
func wireSnapshot(ss pb.Snapshot) pb.Snapshot {
	if pb.IsEmptySnapshot(ss) {
		return pb.Snapshot{}
	}
	var out pb.Snapshot
	pb.MustUnmarshal(&out, pb.MustMarshal(&ss))
	return out
}

func cloneEntry(e pb.Entry) pb.Entry {
	c := e
	if e.Cmd != nil {
		c.Cmd = append([]byte(nil), e.Cmd...)
	}
	return c
}

// SaveRaftState persists an update atomically (the engine's single synced
// write batch).
func (s *memStore) SaveRaftState(updates []pb.Update, w uint64) error {
	if s.real != nil {
		if err := s.real.SaveRaftState(updates, w); err != nil {
			return err
		}
	}
	for _, ud := range updates {
		if ud.ShardID != s.shardID || ud.ReplicaID != s.replicaID {
			panic("raftsim harness: update for another replica")
		}
		s.saves++
		if !pb.IsEmptyState(ud.State) {
			s.state = ud.State
			s.hasState = true
		}
		if !pb.IsEmptySnapshot(ud.Snapshot) && ud.Snapshot.Index > s.snapshot.Index {
			s.snapshot = wireSnapshot(ud.Snapshot)
			s.maxIndex = ud.Snapshot.Index
			s.hasMax = true
		}
		if len(ud.EntriesToSave) > 0 {
			for _, e := range ud.EntriesToSave {
				s.entries[e.Index] = cloneEntry(e)
			}
			s.maxIndex = ud.EntriesToSave[len(ud.EntriesToSave)-1].Index
			s.hasMax = true
		}
	}
	return nil
}

func (s *memStore) IterateEntries(ents []pb.Entry, size uint64, _ uint64, _ uint64,
	low uint64, high uint64, maxSize uint64) ([]pb.Entry, uint64, error) {
	if s.real != nil {
		return s.real.IterateEntries(ents, size, s.shardID, s.replicaID, low, high, maxSize)
	}
	if !s.hasMax {
		return ents, size, nil
	}
	for i := low; i < high && i <= s.maxIndex; i++ {
		e, ok := s.entries[i]
		if !ok {
			break
		}
		size += uint64(e.SizeUpperLimit())
		ents = append(ents, cloneEntry(e))
		if size > maxSize {
			break
		}
	}
	return ents, size, nil
}

func (s *memStore) ReadRaftState(_ uint64, _ uint64, snapshotIndex uint64) (raftio.RaftState, error) {
	if s.real != nil {
		return s.real.ReadRaftState(s.shardID, s.replicaID, snapshotIndex)
	}
	if !s.hasMax && !s.hasState {
		return raftio.RaftState{}, raftio.ErrNoSavedLog
	}
	rs := raftio.RaftState{State: s.state}
	if !s.hasMax || snapshotIndex == s.maxIndex {
		rs.FirstIndex = snapshotIndex
		return rs, nil
	}
	first := uint64(0)
	for i := snapshotIndex; i <= s.maxIndex; i++ {
		if _, ok := s.entries[i]; ok {
			first = i
			break
		}
	}
	if first > 0 {
		rs.FirstIndex = first
		rs.EntryCount = s.maxIndex - first + 1
	}
	return rs, nil
}

func (s *memStore) RemoveEntriesTo(_ uint64, _ uint64, index uint64) error {
	if s.real != nil {
		if err := s.real.RemoveEntriesTo(s.shardID, s.replicaID, index); err != nil {
			return err
		}
	}
	for i := range s.entries {
		if i <= index {
			delete(s.entries, i)
		}
	}
	if index > s.compacted {
		s.compacted = index
	}
	return nil
}

func (s *memStore) CompactEntriesTo(uint64, uint64, uint64) (<-chan struct{}, error) {
	c := make(chan struct{})
	close(c)
	return c, nil
}

func (s *memStore) SaveSnapshots(updates []pb.Update) error {
	if s.real != nil {
		if err := s.real.SaveSnapshots(updates); err != nil {
			return err
		}
	}
	for _, ud := range updates {
		if !pb.IsEmptySnapshot(ud.Snapshot) && ud.Snapshot.Index > s.snapshot.Index {
			s.snapshot = wireSnapshot(ud.Snapshot)
		}
	}
	return nil
}

func (s *memStore) GetSnapshot(uint64, uint64) (pb.Snapshot, error) {
	if s.real != nil {
		return s.real.GetSnapshot(s.shardID, s.replicaID)
	}
	return s.snapshot, nil
}

func (s *memStore) RemoveNodeData(uint64, uint64) error { panic("raftsim harness: not used") }
func (s *memStore) ImportSnapshot(pb.Snapshot, uint64) error {
	panic("raftsim harness: not used")
}

// durableEntry returns the durable entry at index, if any (monitor use).
func (s *memStore) durableEntry(i uint64) (pb.Entry, bool) {
	if !s.hasMax || i > s.maxIndex {
		return pb.Entry{}, false
	}
	e, ok := s.entries[i]
	return e, ok
}

// memSnapshotter is the harness rsm.ISnapshotter: snapshot images are byte
// slices kept in the replica's memStore (durable); the current snapshot record
// comes from the LogReader exactly as in the real snapshotter.
type memSnapshotter struct {
	st  *memStore
	lrf func() pb.Snapshot // LogReader.Snapshot of the present incarnation
}

var _ rsm.ISnapshotter = (*memSnapshotter)(nil)

var errNoSnapshot = fmt.Errorf("raftsim: no snapshot available")

func (m *memSnapshotter) GetSnapshot() (pb.Snapshot, error) {
	ss := m.lrf()
	if pb.IsEmptySnapshot(ss) {
		return pb.Snapshot{}, errNoSnapshot
	}
	return ss, nil
}

func (m *memSnapshotter) IsNoSnapshotError(err error) bool { return err == errNoSnapshot }

// Compact is pb.ICompactor: the LogReader calls it when the last reference to
// a replaced snapshot is dropped (as the real snapshotter, it refuses to
// remove the snapshot the log store records as current).
func (m *memSnapshotter) Compact(index uint64) error {
	if m.st.snapshot.Index <= index {
		panic(fmt.Sprintf("invalid compaction, LogDB snapshot %d, index %d", m.st.snapshot.Index, index))
	}
	delete(m.st.blobs, index)
	return nil
}

func (m *memSnapshotter) Stream(rsm.IStreamable, rsm.SSMeta, pb.IChunkSink) error {
	panic("raftsim harness: streaming not simulated")
}

func (m *memSnapshotter) Shrunk(pb.Snapshot) (bool, error) { return false, nil }

type noFiles struct{}

func (noFiles) AddFile(uint64, string, []byte) {}

func (m *memSnapshotter) Save(savable rsm.ISavable, meta rsm.SSMeta) (pb.Snapshot, server.SSEnv, error) {
	var buf bytes.Buffer
	dummy, err := savable.Save(meta, &buf, meta.Session.Bytes(), noFiles{})
	if err != nil {
		return pb.Snapshot{}, server.SSEnv{}, err
	}
	m.st.blobs[meta.Index] = append([]byte(nil), buf.Bytes()...)
	return pb.Snapshot{
		ShardID:     m.st.shardID,
		Filepath:    fmt.Sprintf("mem://%d/%d", m.st.replicaID, meta.Index),
		FileSize:    uint64(buf.Len()) + 1,
		Membership:  meta.Membership,
		Index:       meta.Index,
		Term:        meta.Term,
		OnDiskIndex: meta.OnDiskIndex,
		Dummy:       dummy,
		Type:        meta.Type,
	}, server.SSEnv{}, nil
}

func (m *memSnapshotter) Load(ss pb.Snapshot, sessions rsm.ILoadable, asm rsm.IRecoverable) error {
	b, ok := m.st.blobs[ss.Index]
	if !ok {
		return fmt.Errorf("raftsim: snapshot image %d missing on replica %d", ss.Index, m.st.replicaID)
	}
	r := bytes.NewReader(b)
	if err := sessions.LoadSessions(r, rsm.V2); err != nil {
		return err
	}
	return asm.Recover(r, nil)
}

// kvSM is the user state machine: per-key append-only lists of unique ids.
// cmd = key byte, then the id (8 bytes big endian). Update returns the new
// length of the key's list. It records every Update for the monitors.
type kvSM struct {
	lists   map[byte][]uint64
	updates int
	onUpd   func(index uint64, cmd []byte)
}

var _ sm.IStateMachine = (*kvSM)(nil)

func newKVSM() *kvSM { return &kvSM{lists: map[byte][]uint64{}} }

func (k *kvSM) Update(e sm.Entry) (sm.Result, error) {
	k.updates++
	if k.onUpd != nil {
		k.onUpd(e.Index, e.Cmd)
	}
	if len(e.Cmd) < 9 {
		return sm.Result{Value: 0}, nil
	}
	key := e.Cmd[0]
	id := beU64(e.Cmd[1:9])
	k.lists[key] = append(k.lists[key], id)
	return sm.Result{Value: uint64(len(k.lists[key]))}, nil
}

func beU64(b []byte) uint64 {
	var v uint64
	for i := 0; i < 8; i++ {
		v = v<<8 | uint64(b[i])
	}
	return v
}

func putU64(v uint64) []byte {
	b := make([]byte, 8)
	for i := 7; i >= 0; i-- {
		b[i] = byte(v)
		v >>= 8
	}
	return b
}

func (k *kvSM) Lookup(q interface{}) (interface{}, error) {
	key := q.(byte)
	return append([]uint64(nil), k.lists[key]...), nil
}

func (k *kvSM) keys() []byte {
	var ks []byte
	for key := range k.lists {
		ks = append(ks, key)
	}
	sort.Slice(ks, func(i, j int) bool { return ks[i] < ks[j] })
	return ks
}

func (k *kvSM) SaveSnapshot(w io.Writer, _ sm.ISnapshotFileCollection, _ <-chan struct{}) error {
	ks := k.keys()
	if _, err := w.Write([]byte{byte(len(ks))}); err != nil {
		return err
	}
	for _, key := range ks {
		l := k.lists[key]
		if _, err := w.Write([]byte{key}); err != nil {
			return err
		}
		if _, err := w.Write(putU64(uint64(len(l)))); err != nil {
			return err
		}
		for _, id := range l {
			if _, err := w.Write(putU64(id)); err != nil {
				return err
			}
		}
	}
	return nil
}

func (k *kvSM) RecoverFromSnapshot(r io.Reader, _ []sm.SnapshotFile, _ <-chan struct{}) error {
	k.lists = map[byte][]uint64{}
	hdr := make([]byte, 1)
	if _, err := io.ReadFull(r, hdr); err != nil {
		return err
	}
	b8 := make([]byte, 8)
	for i := 0; i < int(hdr[0]); i++ {
		kb := make([]byte, 1)
		if _, err := io.ReadFull(r, kb); err != nil {
			return err
		}
		if _, err := io.ReadFull(r, b8); err != nil {
			return err
		}
		n := beU64(b8)
		l := make([]uint64, 0, n)
		for j := uint64(0); j < n; j++ {
			if _, err := io.ReadFull(r, b8); err != nil {
				return err
			}
			l = append(l, beU64(b8))
		}
		k.lists[kb[0]] = l
	}
	return nil
}

func (k *kvSM) Close() error { return nil }

// GetHash makes the state comparable across replicas.
func (k *kvSM) GetHash() (uint64, error) {
	h := uint64(1469598103934665603)
	mix := func(v uint64) {
		for i := 0; i < 8; i++ {
			h ^= v & 0xff
			h *= 1099511628211
			v >>= 8
		}
	}
	for _, key := range k.keys() {
		mix(uint64(key))
		for _, id := range k.lists[key] {
			mix(id)
		}
		mix(0xffffffff)
	}
	return h, nil
}
