package raftsim

import (
	"fmt"
	"github.com/lni/dragonboat/v4/raftio"
	"hash/fnv"
	"os"
	"regexp"
	"sort"
	"strings"

	"github.com/lni/dragonboat/v4/internal/raft"
	"github.com/lni/dragonboat/v4/internal/server"
	pb "github.com/lni/dragonboat/v4/raftpb"
	sm "github.com/lni/dragonboat/v4/statemachine"
	"github.com/lni/dragonboat/v4/verifh/linz"
)

// Sink receives what the monitors find.
type Sink interface {
	Violation(prop, key, what string, witness interface{})
	Count(key string, n int64)
}

type entryID struct {
	Term uint64
	Typ  pb.EntryType
	Hash uint64
	Key  uint64
}

func idOf(e pb.Entry) entryID {
	h := fnv.New64a()
	h.Write(e.Cmd)
	fmt.Fprintf(h, "|%d|%d|%d", e.ClientID, e.SeriesID, e.RespondedTo)
	return entryID{Term: e.Term, Typ: e.Type, Hash: h.Sum64(), Key: e.Key}
}

// rlog is the logical durable log of a replica reconstructed from what it
// saved.
type rlog struct {
	ents      map[uint64]entryID
	last      uint64
	snapIndex uint64
	snapTerm  uint64
}

type readRec struct {
	ctx       pb.SystemCtx
	requester uint64
	g         uint64 // max commit index of any replica when the request was issued
	issuedAt  int
	n         int
}

type votingAt struct {
	evt uint64
	set []uint64
}

type evtTerm struct {
	evt  uint64
	term uint64
}

type monitors struct {
	s    *Sim
	sink Sink

	// C02
	nextPush   map[uint64]uint64
	applied    map[uint64]entryID
	appliedBy  map[uint64]uint64
	lastUser   map[uint64]uint64
	logs       map[uint64]*rlog
	committed  map[uint64]entryID
	committedH map[uint64]bool // hash known
	// committedIn: term of the leader under which the index was committed
	committedIn map[uint64]uint64
	maxCommit   uint64
	commitSeen  map[uint64]uint64
	stateAt     map[uint64][3]uint64
	stateBy     map[uint64]uint64
	memberAt    map[uint64]uint64
	truncs      int

	// C03
	leaderOf map[uint64]uint64
	votes    map[[2]uint64]uint64
	voteResp map[[2]uint64]map[uint64]bool

	// C06
	reads      map[pb.SystemCtx]*readRec
	evt        uint64                             // monitor event counter (finer than sim steps)
	regEvt     map[uint64]map[pb.SystemCtx]uint64 // per replica: when it (last) received a read context
	hbEvt      map[[3]uint64]evtTerm              // (follower, leader, term): latest Heartbeat of that term handled
	respEvt    map[[3]uint64]evtTerm              // (leader, follower, term): latest HeartbeatResp of that term handled
	votingHist map[uint64][]votingAt
	// remoteAnswered: read contexts for which the replica handled a ReadIndexResp
	remoteAnswered map[uint64]map[pb.SystemCtx]bool

	// C07
	ccQueue map[uint64][]uint64 // per replica: indexes of pushed config change entries
	ccAt    map[uint64]ccOutcome
	latest  pb.Membership
	latestI uint64

	// C01 history
	ops     []linz.Op
	opByKey map[uint64]int // entry key -> op index
	opOrig  map[uint64][2]uint64
	readOps map[int]int

	beginRole   string
	beginTerm   uint64
	beginCommit uint64

	// trace hash for distinct counting
	sig     uint64
	flags   map[string]bool
	curTerm map[uint64]uint64
}

type ccOutcome struct {
	rejected bool
	mhash    uint64
	by       uint64
}

func newMonitors(s *Sim, sink Sink) *monitors {
	return &monitors{
		s: s, sink: sink,
		nextPush: map[uint64]uint64{}, applied: map[uint64]entryID{}, appliedBy: map[uint64]uint64{},
		lastUser: map[uint64]uint64{}, logs: map[uint64]*rlog{}, committed: map[uint64]entryID{},
		committedH: map[uint64]bool{}, committedIn: map[uint64]uint64{}, commitSeen: map[uint64]uint64{}, stateAt: map[uint64][3]uint64{},
		stateBy: map[uint64]uint64{}, memberAt: map[uint64]uint64{},
		leaderOf: map[uint64]uint64{}, votes: map[[2]uint64]uint64{}, voteResp: map[[2]uint64]map[uint64]bool{},
		reads: map[pb.SystemCtx]*readRec{}, regEvt: map[uint64]map[pb.SystemCtx]uint64{},
		hbEvt: map[[3]uint64]evtTerm{}, respEvt: map[[3]uint64]evtTerm{}, remoteAnswered: map[uint64]map[pb.SystemCtx]bool{}, votingHist: map[uint64][]votingAt{},
		ccQueue: map[uint64][]uint64{}, ccAt: map[uint64]ccOutcome{},
		opByKey: map[uint64]int{}, opOrig: map[uint64][2]uint64{}, readOps: map[int]int{},
		flags: map[string]bool{}, curTerm: map[uint64]uint64{},
	}
}

func (m *monitors) count(key string, n int64) { m.sink.Count(key, n) }

func (m *monitors) mixSig(parts ...uint64) {
	for _, p := range parts {
		m.sig = (m.sig ^ p) * 1099511628211
	}
}

func (m *monitors) violation(prop, key, what string) {
	m.sink.Violation(prop, key, what, m.s.witness(what))
}

var reNum = regexp.MustCompile(`[0-9]+`)

func (m *monitors) sutPanic(r *replica, where string, x interface{}) {
	msg := fmt.Sprint(x)
	if strings.Contains(msg, "raftsim harness") {
		panic(x) // a bug of the harness must not look like a finding
	}
	norm := reNum.ReplaceAllString(msg, "N")
	if len(norm) > 90 {
		norm = norm[:90]
	}
	norm = strings.Join(strings.Fields(norm), "_")
	m.sink.Violation("*", "panic:"+norm, fmt.Sprintf("replica %d panicked in %s: %s", r.id, where, msg), m.s.witness(msg))
	// the replica is dead
	r.alive = false
	r.removed = true
	m.flags["panic"] = true
}

func (m *monitors) log(r *replica) *rlog {
	l, ok := m.logs[r.id]
	if !ok {
		l = &rlog{ents: map[uint64]entryID{}}
		m.logs[r.id] = l
	}
	return l
}

// ---------- life cycle ----------

func (m *monitors) onStart(r *replica, newNode bool) {}

func (m *monitors) onStarted(r *replica, ssIndex uint64) {
	m.nextPush[r.id] = ssIndex + 1
	m.lastUser[r.id] = ssIndex
	m.ccQueue[r.id] = nil
	delete(m.regEvt, r.id)
}

func (m *monitors) onCrash(r *replica) {
	delete(m.regEvt, r.id)
	delete(m.remoteAnswered, r.id)
	delete(m.votingHist, r.id)
}

// ---------- C02 ----------

func (m *monitors) onSaved(r *replica, ud *pb.Update) {
	m.onSavedVote(r, ud.State)
	l := m.log(r)
	if !pb.IsEmptySnapshot(ud.Snapshot) && ud.Snapshot.Index > l.snapIndex {
		// a restore replaces the whole log
		for i, e := range l.ents {
			if c, ok := m.committed[i]; ok && i > ud.Snapshot.Index && c == e && m.committedH[i] {
				_ = c // entries above the snapshot are dropped by a restore; they
				// are covered again by later replication, not a violation by itself
			}
		}
		l.ents = map[uint64]entryID{}
		l.snapIndex, l.snapTerm = ud.Snapshot.Index, ud.Snapshot.Term
		l.last = ud.Snapshot.Index
		m.count("snapshots_installed", 1)
		m.flags["snapshot_installed"] = true
	}
	if n := len(ud.EntriesToSave); n > 0 {
		first := ud.EntriesToSave[0].Index
		lastNew := ud.EntriesToSave[n-1].Index
		if first <= l.last {
			m.truncs++
			m.count("conflict_truncations", 1)
			m.flags["truncation"] = true
		}
		for _, e := range ud.EntriesToSave {
			id := idOf(e)
			if r.cfg.IsWitness {
				id.Hash, id.Key, id.Typ = 0, 0, 0
			}
			// a replica may lose entries it does not know to be committed to a
			// deposed leader of an intermediate term (plain raft); entries at or
			// below the commit index the replica itself has ever known are final
			if c, ok := m.committed[e.Index]; ok && e.Index <= m.commitSeen[r.id] {
				if c.Term != id.Term || (m.committedH[e.Index] && !r.cfg.IsWitness && (c.Hash != id.Hash || c.Typ != id.Typ)) {
					if old, had := l.ents[e.Index]; had && old.Term == c.Term {
						m.violation("C02", "committed-entry-replaced",
							fmt.Sprintf("replica %d overwrites committed index %d (term %d) with term %d", r.id, e.Index, c.Term, id.Term))
					}
				}
			}
			l.ents[e.Index] = id
		}
		// everything after the saved range is logically gone
		for i := lastNew + 1; i <= l.last; i++ {
			if old, had := l.ents[i]; had {
				if c, ok := m.committed[i]; ok && c.Term == old.Term && i <= m.commitSeen[r.id] {
					m.violation("C02", "committed-entry-truncated",
						fmt.Sprintf("replica %d truncated its log to %d, dropping committed index %d (term %d)", r.id, lastNew, i, c.Term))
				}
				delete(l.ents, i)
			}
		}
		l.last = lastNew
	}
}

func (m *monitors) onCompact(r *replica, to uint64) {
	l := m.log(r)
	for i := range l.ents {
		if i <= to {
			delete(l.ents, i)
		}
	}
	m.count("log_compactions", 1)
	m.flags["compaction"] = true
	// C08 clause: compaction never beyond a durable snapshot
	if to > r.store.snapshot.Index {
		m.violation("C08", "compaction-beyond-snapshot",
			fmt.Sprintf("replica %d removes entries up to %d but its recorded snapshot is at %d", r.id, to, r.store.snapshot.Index))
	}
}

func (m *monitors) onUpdate(r *replica, ud *pb.Update) {
	if t := ud.State.Term; t > 0 {
		m.curTerm[r.id] = t
	}
}

// noteVoting records the voting set (voters + witnesses) a replica operates
// under whenever it changes.
func (m *monitors) noteVoting(r *replica, v *raft.VerifView) {
	set := append(append([]uint64{}, v.Voters...), v.Witnesses...)
	h := m.votingHist[r.id]
	if n := len(h); n > 0 && equalIDs(h[n-1].set, set) {
		return
	}
	m.evt++
	m.votingHist[r.id] = append(h, votingAt{evt: m.evt, set: set})
}

func equalIDs(a, b []uint64) bool {
	if len(a) != len(b) {
		return false
	}
	for i := range a {
		if a[i] != b[i] {
			return false
		}
	}
	return true
}

// votingSince returns every replica that was in r's voting set at some
// moment since evt.
func (m *monitors) votingSince(r *replica, evt uint64) []uint64 {
	h := m.votingHist[r.id]
	seen := map[uint64]bool{}
	var out []uint64
	for i, e := range h {
		if e.evt >= evt || i == len(h)-1 || h[i+1].evt > evt {
			for _, x := range e.set {
				if !seen[x] {
					seen[x] = true
					out = append(out, x)
				}
			}
		}
	}
	return out
}

func (m *monitors) onStepBegin(r *replica) {
	v := r.peer.VerifView()
	m.noteVoting(r, &v)
	m.beginRole, m.beginTerm, m.beginCommit = v.Role, v.Term, v.Committed
}

func (m *monitors) onStepEnd(r *replica) {
	v := r.peer.VerifView()
	prev := m.commitSeen[r.id]
	// a replica that was leader of one term throughout the step advanced its
	// commit index by counting: raft only ever commits entries of the
	// leader's own term that way (committing an older term's entry by
	// counting lets a committed entry be replaced later - raft paper fig. 8)
	if v.Role == "Leader" && m.beginRole == "Leader" && m.beginTerm == v.Term && v.Committed > m.beginCommit {
		if t := r.peer.VerifTerm(v.Committed); t != 0 && t != v.Term {
			m.violation("C02", "leader-commits-older-term-entry-by-counting",
				fmt.Sprintf("leader %d of term %d advanced its commit index from %d to %d whose entry has term %d", r.id, v.Term, m.beginCommit, v.Committed, t))
		}
		m.count("leader_commit_advances_checked", 1)
	}
	if v.Committed > prev {
		l := m.log(r)
		for i := prev + 1; i <= v.Committed; i++ {
			t := r.peer.VerifTerm(i)
			if t == 0 {
				continue
			}
			id, have := l.ents[i]
			if have && id.Term != t {
				have = false
			}
			if c, ok := m.committed[i]; ok {
				if c.Term != t {
					m.violation("C02", "two-entries-committed-at-one-index",
						fmt.Sprintf("index %d committed with term %d earlier, replica %d now commits it with term %d", i, c.Term, r.id, t))
				} else if have && !m.committedH[i] && !r.cfg.IsWitness {
					m.committed[i] = id
					m.committedH[i] = true
				} else if have && m.committedH[i] && !r.cfg.IsWitness && (c.Hash != id.Hash || c.Typ != id.Typ) {
					m.violation("C02", "two-entries-committed-at-one-index",
						fmt.Sprintf("index %d term %d committed with different payloads (replica %d)", i, t, r.id))
				}
			} else {
				if have && !r.cfg.IsWitness {
					m.committed[i] = id
					m.committedH[i] = true
				} else {
					m.committed[i] = entryID{Term: t}
				}
				// the first observer of a commit is in the term of the leader
				// that committed it (commit indexes are only learned from the
				// leader of one's own term)
				m.committedIn[i] = v.Term
				if os.Getenv("VERIF_DEBUG") == "3" {
					fmt.Fprintf(os.Stderr, "%d: index %d (term %d) first seen committed at replica %d role %s term %d voters %v nv %v w %v\n", m.s.stepNo, i, t, r.id, v.Role, v.Term, v.Voters, v.NonVotings, v.Witnesses)
				}
				m.count("entries_committed", 1)
			}
		}
		m.commitSeen[r.id] = v.Committed
		if v.Committed > m.maxCommit {
			m.maxCommit = v.Committed
			if v.Role == "Leader" {
				m.checkCommitQuorum(r, v.Committed, v.Term)
			}
		}
	}
	m.checkRoles(r)
}

func (m *monitors) onPush(r *replica, ents []pb.Entry) {
	if len(ents) == 0 {
		return
	}
	if np := m.nextPush[r.id]; np != 0 && ents[0].Index != np {
		m.violation("C02", "apply-order-gap",
			fmt.Sprintf("replica %d hands index %d to its state machine, expected %d", r.id, ents[0].Index, np))
	}
	v := r.peer.VerifView()
	for k, e := range ents {
		if k > 0 && e.Index != ents[k-1].Index+1 {
			m.violation("C02", "apply-order-gap", fmt.Sprintf("replica %d: gap inside a pushed batch at %d", r.id, e.Index))
		}
		if e.Index > v.Committed {
			m.violation("C02", "apply-before-commit",
				fmt.Sprintf("replica %d applies index %d, its commit index is %d", r.id, e.Index, v.Committed))
		}
		id := idOf(e)
		if e.Type == pb.ConfigChangeEntry {
			m.ccQueue[r.id] = append(m.ccQueue[r.id], e.Index)
		}
		if r.cfg.IsWitness {
			if g, ok := m.applied[e.Index]; ok && g.Term != id.Term {
				m.violation("C02", "replicas-apply-different-entries",
					fmt.Sprintf("index %d: witness %d applies term %d, replica %d applied term %d", e.Index, r.id, id.Term, m.appliedBy[e.Index], g.Term))
			}
			continue
		}
		if g, ok := m.applied[e.Index]; ok {
			if g != id {
				m.violation("C02", "replicas-apply-different-entries",
					fmt.Sprintf("index %d: replica %d applies %+v, replica %d applied %+v", e.Index, r.id, id, m.appliedBy[e.Index], g))
			}
		} else {
			m.applied[e.Index] = id
			m.appliedBy[e.Index] = r.id
			m.count("entries_applied_first", 1)
		}
		m.count("entries_pushed", 1)
	}
	m.nextPush[r.id] = ents[len(ents)-1].Index + 1
}

func (m *monitors) onSnapshotPushed(r *replica, ss pb.Snapshot) {
	m.nextPush[r.id] = ss.Index + 1
}

func (m *monitors) onRecovered(r *replica, ss pb.Snapshot) {
	if ss.Index > m.lastUser[r.id] {
		m.lastUser[r.id] = ss.Index
	}
	q := m.ccQueue[r.id]
	for len(q) > 0 && q[0] <= ss.Index {
		q = q[1:]
	}
	m.ccQueue[r.id] = q
	m.count("snapshots_recovered", 1)
}

func (m *monitors) onUserUpdate(r *replica, index uint64, cmd []byte) {
	if r.cfg.IsWitness {
		m.violation("C18", "witness-state-machine-update",
			fmt.Sprintf("witness %d had Update(%d) called on its state machine", r.id, index))
	}
	if index <= m.lastUser[r.id] {
		m.violation("C02", "user-update-not-increasing",
			fmt.Sprintf("replica %d: Update(%d) after Update/snapshot at %d", r.id, index, m.lastUser[r.id]))
	}
	m.lastUser[r.id] = index
	m.count("user_updates", 1)
}

func (m *monitors) onApplied(r *replica) {
	if r.alive && !r.removed {
		v := r.peer.VerifView()
		m.noteVoting(r, &v)
	}
	idx := r.rsm.GetLastApplied()
	if idx == 0 {
		return
	}
	mh := r.rsm.GetMembershipHash()
	if r.cfg.IsWitness {
		if prev, ok := m.memberAt[idx]; ok && prev != mh {
			m.violation("C07", "membership-differs-at-equal-index",
				fmt.Sprintf("membership hash at applied index %d differs between witness %d and another replica", idx, r.id))
		}
		m.checkRaftMembership(r)
		return
	}
	h1, _ := r.rsm.GetHash()
	h2 := r.rsm.GetSessionHash()
	cur := [3]uint64{h1, h2, mh}
	if prev, ok := m.stateAt[idx]; ok {
		if prev != cur {
			what := "user state"
			key := "state-differs-at-equal-index"
			prop := "C02"
			if prev[0] == cur[0] && prev[1] != cur[1] {
				what = "session table"
			} else if prev[0] == cur[0] && prev[1] == cur[1] {
				what = "membership"
				prop, key = "C07", "membership-differs-at-equal-index"
			}
			m.violation(prop, key,
				fmt.Sprintf("%s at applied index %d differs between replica %d and replica %d", what, idx, r.id, m.stateBy[idx]))
		}
		m.count("state_comparisons", 1)
	} else {
		m.stateAt[idx] = cur
		m.stateBy[idx] = r.id
		m.memberAt[idx] = mh
	}
	if idx >= m.latestI {
		m.latestI = idx
		m.latest = r.rsm.GetMembership()
	}
	m.checkRaftMembership(r)
}

// checkLogMatching compares the durable logs pairwise: equal term at an index
// implies identical prefixes.
func (m *monitors) checkLogMatching() {
	ids := make([]uint64, 0, len(m.logs))
	for id := range m.logs {
		ids = append(ids, id)
	}
	sort.Slice(ids, func(i, j int) bool { return ids[i] < ids[j] })
	for x := 0; x < len(ids); x++ {
		for y := x + 1; y < len(ids); y++ {
			a, b := m.logs[ids[x]], m.logs[ids[y]]
			wa := m.s.replicas[ids[x]].cfg.IsWitness || m.s.replicas[ids[y]].cfg.IsWitness
			hi := a.last
			if b.last < hi {
				hi = b.last
			}
			match := false
			for i := hi; i > 0; i-- {
				ea, oka := a.ents[i]
				eb, okb := b.ents[i]
				if !oka || !okb {
					if match {
						break // compacted below here
					}
					continue
				}
				if !match {
					if ea.Term == eb.Term {
						match = true
					} else {
						continue
					}
				}
				same := ea.Term == eb.Term
				if same && !wa {
					same = ea == eb
				}
				if !same {
					m.violation("C02", "log-matching-broken",
						fmt.Sprintf("replicas %d and %d agree on the term at a higher index but differ at index %d (%+v vs %+v)", ids[x], ids[y], i, ea, eb))
					break
				}
				m.count("log_matching_comparisons", 1)
			}
		}
	}
}

// ---------- C03 ----------

func (m *monitors) onLeaderUpdated(r *replica, info server.LeaderInfo) {
	if info.LeaderID == 0 || info.Term == 0 {
		return
	}
	if l, ok := m.leaderOf[info.Term]; ok {
		if l != info.LeaderID {
			m.violation("C03", "two-leaders-in-one-term",
				fmt.Sprintf("term %d: leader %d known, replica %d now reports leader %d", info.Term, l, r.id, info.LeaderID))
		}
	} else {
		m.leaderOf[info.Term] = info.LeaderID
	}
	if info.LeaderID != r.id {
		return
	}
	m.count("leaders_elected", 1)
	m.mixSig(0x1eade, info.Term, r.id)
	if m.maxCommit > 0 && len(m.leaderOf) > 1 {
		m.flags["leader_change_after_commit"] = true
	}
	v := r.peer.VerifView()
	// C18: only regular voters lead
	if contains(v.NonVotings, r.id) || contains(v.Witnesses, r.id) || r.cfg.IsWitness {
		m.violation("C18", "non-voter-became-leader", fmt.Sprintf("replica %d became leader in term %d as non-voting member or witness", r.id, info.Term))
	}
	// quorum of granted votes from voting members
	voting := append(append([]uint64{}, v.Voters...), v.Witnesses...)
	got := 1
	for from := range m.voteResp[[2]uint64{r.id, info.Term}] {
		if from != r.id && contains(voting, from) {
			got++
		}
	}
	if got < v.Quorum {
		m.violation("C03", "leader-without-vote-quorum",
			fmt.Sprintf("replica %d became leader of term %d with %d votes from voting members, quorum is %d (voting set %v)", r.id, info.Term, got, v.Quorum, voting))
	}
	// leader completeness: every entry committed in an earlier term (a leader
	// that learns late that it won an old term need not hold what later terms
	// committed)
	for i, c := range m.committed {
		if i < v.FirstIndex || m.committedIn[i] >= info.Term {
			continue
		}
		t := r.peer.VerifTerm(i)
		if i > v.LastIndex || (t != 0 && t != c.Term) {
			m.violation("C03", "leader-misses-committed-entry",
				fmt.Sprintf("new leader %d of term %d: index %d was committed with term %d, leader has term %d (last index %d)", r.id, info.Term, i, c.Term, t, v.LastIndex))
			break
		}
	}
	m.count("leader_completeness_checks", 1)
}

func contains(l []uint64, x uint64) bool {
	for _, v := range l {
		if v == x {
			return true
		}
	}
	return false
}

// durable votes: what the replica persisted as its vote
func (m *monitors) onSavedVote(r *replica, st pb.State) {
	if st.Vote != 0 && st.Term != 0 {
		m.recordVote(r.id, st.Term, st.Vote)
	}
}

func (m *monitors) onCampaign(r *replica, info server.CampaignInfo) {
	m.count("campaigns", 1)
	v := r.peer.VerifView()
	if contains(v.NonVotings, r.id) || contains(v.Witnesses, r.id) || r.cfg.IsWitness {
		m.violation("C18", "non-voter-campaigns", fmt.Sprintf("replica %d (non-voting or witness) launched a campaign in term %d", r.id, info.Term))
	}
	if !info.PreVote && r.inCCStep {
		what := fmt.Sprintf("replica %d launches a campaign for term %d in a step-worker iteration that runs while a committed membership change is being applied: the state machine side is done, the raft core has not been given the change yet (node.ApplyConfigChange waits for raftMu)", r.id, info.Term)
		m.violation("C07", "campaign-while-config-change-is-handed-over", what)
		m.violation("C03", "campaign-while-config-change-is-handed-over", what)
	}
	// a replica that holds a committed but not yet applied membership change
	// still operates under the old membership (changes take effect when
	// applied): if it campaigns it can be elected by a quorum of that old
	// membership which does not intersect the real one
	if !info.PreVote && r.alive && r.rsm != nil {
		applied := r.rsm.GetLastApplied()
		l := m.log(r)
		for i := applied + 1; i <= v.Committed; i++ {
			if e, ok := l.ents[i]; ok && e.Typ == pb.ConfigChangeEntry {
				what := fmt.Sprintf("replica %d launches a campaign for term %d while the membership change at index %d is committed (commit %d) but not applied (applied %d)", r.id, info.Term, i, v.Committed, applied)
				m.violation("C07", "campaign-with-committed-unapplied-config-change", what)
				m.violation("C03", "campaign-with-committed-unapplied-config-change", what)
				break
			}
		}
		m.count("campaign_pending_change_checks", 1)
	}
	if !contains(v.Voters, r.id) {
		m.violation("C18", "non-member-campaigns", fmt.Sprintf("replica %d launched a campaign in term %d but is not a voting member in its own view %v", r.id, info.Term, v.Voters))
	}
}

func (m *monitors) recordVote(voter, term, to uint64) {
	k := [2]uint64{voter, term}
	if prev, ok := m.votes[k]; ok && prev != to {
		m.violation("C03", "two-votes-in-one-term",
			fmt.Sprintf("replica %d voted for %d and for %d in term %d", voter, prev, to, term))
		return
	}
	m.votes[k] = to
}

// onRecoveredFromRealStore: a replica whose raft state lives in a real log store has been
// restarted. What the reopened store reports must be what the replica had handed to
// SaveRaftState (the shadow kept next to the store): the hard state - in particular a vote that
// was granted and announced (C03: one vote per term also across restarts; C04) - and the log
// (C02: a suffix that was overwritten must not come back, nothing acknowledged may be missing).
func (m *monitors) onRecoveredFromRealStore(r *replica, rs raftio.RaftState) {
	m.count("restarts_compared_with_real_store", 1)
	if r.store.realTan {
		m.count("restarts_compared_with_real_tan_store", 1)
	}
	sh := r.store
	if sh.hasState {
		if rs.State.Term < sh.state.Term {
			what := fmt.Sprintf("replica %d restarts with durable term %d, it had saved term %d", r.id, rs.State.Term, sh.state.Term)
			m.violation("C03", "term-lost-across-restart", what)
			m.violation("C04", "term-lost-across-restart", what)
		} else if rs.State.Term == sh.state.Term && rs.State.Vote != sh.state.Vote {
			what := fmt.Sprintf("replica %d restarts with vote %d for term %d, it had saved vote %d for that term", r.id, rs.State.Vote, rs.State.Term, sh.state.Vote)
			if v, ok := m.votes[[2]uint64{r.id, sh.state.Term}]; ok {
				what += fmt.Sprintf(" (and announced its vote for %d)", v)
			}
			m.violation("C03", "vote-lost-across-restart", what)
			m.violation("C04", "vote-lost-across-restart", what)
		}
	}
	if !sh.hasMax {
		return
	}
	first, last := rs.FirstIndex, rs.FirstIndex+rs.EntryCount-1
	if rs.EntryCount == 0 {
		last = 0
	}
	if last != sh.maxIndex && !(rs.EntryCount == 0 && sh.maxIndex <= sh.snapshot.Index) {
		what := fmt.Sprintf("replica %d restarts with a durable log ending at %d (first %d, %d entries), the log it had saved ends at %d", r.id, last, first, rs.EntryCount, sh.maxIndex)
		m.violation("C02", "durable-log-differs-after-restart", what)
		m.violation("C04", "durable-log-differs-after-restart", what)
		return
	}
	if rs.EntryCount > 0 {
		ents, _, err := sh.real.IterateEntries(nil, 0, sh.shardID, sh.replicaID, first, last+1, 1<<40)
		if err != nil || uint64(len(ents)) != rs.EntryCount {
			what := fmt.Sprintf("replica %d restarts: the store reports %d entries from %d, iterating them returns %d (%v)", r.id, rs.EntryCount, first, len(ents), err)
			m.violation("C02", "durable-log-differs-after-restart", what)
			m.violation("C04", "durable-log-differs-after-restart", what)
			return
		}
		for _, e := range ents {
			if want, ok := sh.entries[e.Index]; ok && (want.Term != e.Term || string(want.Cmd) != string(e.Cmd)) {
				what := fmt.Sprintf("replica %d restarts with entry %d of term %d, the entry it had saved last at that index has term %d", r.id, e.Index, e.Term, want.Term)
				m.violation("C02", "durable-log-differs-after-restart", what)
				m.violation("C04", "durable-log-differs-after-restart", what)
				return
			}
		}
	}
}

// persistBeforeSend (C04 at simulator level): what a message tells other
// replicas about the sender's term, vote and log must already be in the
// sender's durable store (what SaveRaftState received) when the message
// leaves. Replicate and Ping may leave early by design (node.go).
func (m *monitors) persistBeforeSend(from *replica, msg pb.Message) {
	st := from.store.state
	switch msg.Type {
	case pb.RequestVote:
		m.count("c04_vote_requests_checked", 1)
		if st.Term < msg.Term || (st.Term == msg.Term && st.Vote != from.id) {
			m.violation("C04", "vote-request-before-term-and-vote-durable",
				fmt.Sprintf("replica %d sends RequestVote for term %d while its durable state is term %d vote %d", from.id, msg.Term, st.Term, st.Vote))
		}
	case pb.RequestVoteResp:
		if msg.Reject {
			return
		}
		m.count("c04_vote_grants_checked", 1)
		if st.Term < msg.Term || (st.Term == msg.Term && st.Vote != msg.To) {
			m.violation("C04", "vote-not-durable-before-grant",
				fmt.Sprintf("replica %d grants its vote of term %d to %d while its durable state is term %d vote %d", from.id, msg.Term, msg.To, st.Term, st.Vote))
		}
	case pb.ReplicateResp:
		if msg.Reject {
			return
		}
		m.count("c04_replication_acks_checked", 1)
		if st.Term < msg.Term {
			m.violation("C04", "ack-before-term-durable",
				fmt.Sprintf("replica %d acknowledges replication in term %d while its durable term is %d", from.id, msg.Term, st.Term))
		}
		if st.Term > msg.Term {
			// the replica moved on to a later term within the same step-worker batch (its log may
			// have been rewritten by the new leader in that batch): the acknowledgement is what it
			// would have sent had the batch been split, when the entries were on its disk
			m.count("c04_acks_of_an_earlier_term_in_the_same_batch", 1)
			return
		}
		if msg.LogIndex > 0 {
			if _, ok := from.store.durableEntry(msg.LogIndex); !ok && from.store.snapshot.Index < msg.LogIndex {
				m.violation("C04", "ack-before-entries-durable",
					fmt.Sprintf("replica %d acknowledges entries up to %d which are not in its durable log (snapshot %d)", from.id, msg.LogIndex, from.store.snapshot.Index))
			}
		}
	case pb.HeartbeatResp:
		m.count("c04_heartbeat_responses_checked", 1)
		if st.Term < msg.Term {
			m.violation("C04", "heartbeat-response-before-term-durable",
				fmt.Sprintf("replica %d answers a heartbeat of term %d while its durable term is %d", from.id, msg.Term, st.Term))
		}
	}
}

func (m *monitors) onSend(from *replica, msg pb.Message) {
	m.count("msgs_sent_"+msg.Type.String(), 1)
	m.persistBeforeSend(from, msg)
	switch msg.Type {
	case pb.RequestVote:
		// asking for votes in a term implies having voted for oneself
		m.recordVote(from.id, msg.Term, from.id)
	case pb.RequestVoteResp:
		if !msg.Reject {
			m.recordVote(from.id, msg.Term, msg.To)
			m.count("votes_granted", 1)
		}
	case pb.ReadIndexResp:
		m.checkReadAnswer(from, pb.SystemCtx{Low: msg.Hint, High: msg.HintHigh}, msg.LogIndex, msg.Term)
	}
	// C18: what goes to a witness
	if to, ok := m.s.replicas[msg.To]; ok && to.cfg.IsWitness {
		switch msg.Type {
		case pb.Replicate:
			for _, e := range msg.Entries {
				if e.Type != pb.MetadataEntry && e.Type != pb.ConfigChangeEntry {
					m.violation("C18", "payload-sent-to-witness",
						fmt.Sprintf("replica %d sends entry %d of type %s (%d payload bytes) to witness %d", from.id, e.Index, e.Type, len(e.Cmd), msg.To))
				}
				if e.Type == pb.MetadataEntry && len(e.Cmd) > 0 {
					m.violation("C18", "payload-sent-to-witness", fmt.Sprintf("metadata entry %d to witness %d carries a payload", e.Index, msg.To))
				}
			}
			m.count("replicate_to_witness", 1)
		case pb.InstallSnapshot:
			if !msg.Snapshot.Witness {
				m.violation("C18", "full-snapshot-sent-to-witness",
					fmt.Sprintf("replica %d sends a full snapshot (index %d) to witness %d", from.id, msg.Snapshot.Index, msg.To))
			}
			m.count("snapshot_to_witness", 1)
		}
	}
	if msg.Type == pb.InstallSnapshot {
		m.count("snapshots_sent", 1)
	}
}

func (m *monitors) onDeliver(to *replica, msg pb.Message) {}

func (m *monitors) onHandle(r *replica, msg pb.Message) {
	if os.Getenv("VERIF_DEBUG") == "2" && (msg.Type == pb.ReadIndex || msg.Type == pb.ReadIndexResp || ((msg.Type == pb.HeartbeatResp || msg.Type == pb.Heartbeat) && msg.Hint != 0)) {
		fmt.Fprintf(os.Stderr, "%d/e%d: replica %d handles %s from %d ctx {%d %d} term %d\n", m.s.stepNo, m.evt, r.id, msg.Type, msg.From, msg.Hint, msg.HintHigh, msg.Term)
	}
	switch msg.Type {
	case pb.RequestVoteResp:
		if !msg.Reject {
			k := [2]uint64{r.id, msg.Term}
			if m.voteResp[k] == nil {
				m.voteResp[k] = map[uint64]bool{}
			}
			m.voteResp[k][msg.From] = true
		}
	case pb.ReadIndexResp:
		// the requester is answered by another replica
		if m.remoteAnswered[r.id] == nil {
			m.remoteAnswered[r.id] = map[pb.SystemCtx]bool{}
		}
		m.remoteAnswered[r.id][pb.SystemCtx{Low: msg.Hint, High: msg.HintHigh}] = true
	case pb.ReadIndex:
		m.leaderSawCtx(r, pb.SystemCtx{Low: msg.Hint, High: msg.HintHigh})
	case pb.Heartbeat:
		m.evt++
		// per term: a long-delayed heartbeat of an older term (ignored by raft) must not hide the
		// confirmations of the present one
		m.hbEvt[[3]uint64{r.id, msg.From, msg.Term}] = evtTerm{m.evt, msg.Term}
	case pb.HeartbeatResp:
		m.evt++
		m.respEvt[[3]uint64{r.id, msg.From, msg.Term}] = evtTerm{m.evt, msg.Term}
	}
}

// ---------- C06 ----------

func (m *monitors) globalMaxCommit() uint64 {
	g := m.maxCommit
	for _, id := range m.s.order {
		r := m.s.replicas[id]
		if r.alive && !r.removed {
			if c := r.peer.VerifView().Committed; c > g {
				g = c
			}
		}
	}
	return g
}

func (m *monitors) onReadIssued(r *replica, ctx pb.SystemCtx, n int) {
	g := m.globalMaxCommit()
	m.reads[ctx] = &readRec{ctx: ctx, requester: r.id, g: g, issuedAt: m.s.stepNo, n: n}
	m.count("read_ctx_issued", 1)
	m.leaderSawCtx(r, ctx)
}

// leaderSawCtx notes when replica r (last) received the context; leadership
// confirmations only count from then on.
func (m *monitors) leaderSawCtx(r *replica, ctx pb.SystemCtx) {
	m.evt++
	if m.regEvt[r.id] == nil {
		m.regEvt[r.id] = map[pb.SystemCtx]uint64{}
	}
	// a context that is still pending keeps its first arrival (raft ignores
	// the duplicate); an answered one that arrives again is a new request
	if _, pending := m.regEvt[r.id][ctx]; !pending {
		m.regEvt[r.id][ctx] = m.evt
	}
}

// checkReadAnswer is called when replica r releases ctx (own ReadyToRead or a
// ReadIndexResp to the requester).
// The answer was produced while r was at term `term` (the term stamped on the
// message when it was generated, or the present term for a local release);
// the replica may have changed role since, within the same step.
func (m *monitors) checkReadAnswer(r *replica, ctx pb.SystemCtx, index uint64, term uint64) {
	v := r.peer.VerifView()
	if l, ok := m.leaderOf[term]; !ok || l != r.id {
		m.violation("C06", "read-answered-by-non-leader",
			fmt.Sprintf("replica %d answers read context %v at term %d, of which it never was the leader (now %s)", r.id, ctx, term, v.Role))
		return
	}
	if t := r.peer.VerifTerm(v.Committed); t != 0 && t < term {
		m.violation("C06", "read-answered-before-commit-in-term",
			fmt.Sprintf("leader %d (term %d) answers a read while its commit index %d has term %d", r.id, term, v.Committed, t))
	}
	if reg, seen := m.regEvt[r.id][ctx]; seen && v.Quorum > 1 {
		// a voting member confirms r's leadership after the request arrived if
		// it handled a heartbeat of r (same term) after that moment and r has
		// handled a heartbeat response of it after that moment
		m.noteVoting(r, &v)
		voting := m.votingSince(r, reg)
		n := 1
		for _, f := range voting {
			if f == r.id {
				continue
			}
			hb, ok1 := m.hbEvt[[3]uint64{f, r.id, term}]
			rs, ok2 := m.respEvt[[3]uint64{r.id, f, term}]
			if ok1 && ok2 && hb.term == term && rs.term == term && hb.evt >= reg && rs.evt >= reg {
				n++
			}
		}
		if n < v.Quorum && os.Getenv("VERIF_DEBUG") != "" {
			for _, f := range voting {
				fmt.Fprintf(os.Stderr, "  step %d leader %d term %d ctx %v reg %d: member %d hb %+v resp %+v view %+v\n", m.s.stepNo, r.id, term, ctx, reg, f, m.hbEvt[[3]uint64{f, r.id, term}], m.respEvt[[3]uint64{r.id, f, term}], v)
			}
		}
		if n < v.Quorum {
			m.violation("C18", "read-confirmed-without-voting-quorum",
				fmt.Sprintf("leader %d (term %d) answers read context %v with leadership confirmations from %d voting members (incl. itself), quorum of voters+witnesses is %d", r.id, term, ctx, n, v.Quorum))
			m.violation("C06", "read-answered-without-quorum-confirmation",
				fmt.Sprintf("leader %d (term %d) answers read context %v but only %d voting members (incl. itself) confirmed its leadership after it received the request, quorum is %d", r.id, term, ctx, n, v.Quorum))
		}
		m.count("read_quorum_checks", 1)
	}
	delete(m.regEvt[r.id], ctx)
	if rec, ok := m.reads[ctx]; ok {
		if index < rec.g {
			m.violation("C06", "stale-read-index",
				fmt.Sprintf("leader %d answers read context %v with index %d, but index %d was committed when the request was issued", r.id, ctx, index, rec.g))
		}
	}
}

func (m *monitors) onReadReady(r *replica, rtr pb.ReadyToRead) {
	rec, ok := m.reads[rtr.SystemCtx]
	m.count("read_ctx_ready", 1)
	if !ok {
		return
	}
	if rec.requester != r.id {
		return
	}
	if rtr.Index < rec.g {
		m.violation("C06", "stale-read-index",
			fmt.Sprintf("replica %d is released for read context %v with index %d, but index %d was already committed when it issued the request (step %d)", r.id, rtr.SystemCtx, rtr.Index, rec.g, rec.issuedAt))
	}
	if len(m.leaderOf) > 0 {
		lt := uint64(0)
		for t := range m.leaderOf {
			if t > lt {
				lt = t
			}
		}
		if m.curTerm[r.id] < lt || m.s.stepNo-rec.issuedAt > 50 {
			m.flags["read_raced_leader_change"] = true
		}
	}
	// the answering leader, when it is the requester itself (and the answer
	// did not come in a ReadIndexResp of another leader handled in this step)
	if m.remoteAnswered[r.id][rtr.SystemCtx] {
		delete(m.remoteAnswered[r.id], rtr.SystemCtx)
		delete(m.regEvt[r.id], rtr.SystemCtx)
		return
	}
	v := r.peer.VerifView()
	if v.Role == "Leader" {
		m.checkReadAnswer(r, rtr.SystemCtx, rtr.Index, v.Term)
	}
}

// ---------- C07 / C18 ----------

func (m *monitors) onConfigChange(r *replica, cc pb.ConfigChange, key uint64, rejected bool) {
	q := m.ccQueue[r.id]
	if len(q) == 0 {
		return
	}
	idx := q[0]
	m.ccQueue[r.id] = q[1:]
	mh := r.rsm.GetMembershipHash()
	if prev, ok := m.ccAt[idx]; ok {
		if prev.rejected != rejected || prev.mhash != mh {
			m.violation("C07", "config-change-outcome-differs",
				fmt.Sprintf("config change at index %d (%s %d): replica %d rejected=%v, replica %d rejected=%v (membership hashes %x / %x)",
					idx, cc.Type, cc.ReplicaID, r.id, rejected, prev.by, prev.rejected, mh, prev.mhash))
		}
		m.count("config_change_comparisons", 1)
	} else {
		m.ccAt[idx] = ccOutcome{rejected: rejected, mhash: mh, by: r.id}
		if rejected {
			m.count("config_changes_rejected", 1)
		} else {
			m.count("config_changes_applied", 1)
			m.flags["config_change_applied"] = true
			m.mixSig(0xcc, idx, uint64(cc.Type), cc.ReplicaID)
		}
	}
}

// checkRaftMembership: the raft core's member sets equal the membership the
// replica's state machine has applied.
func (m *monitors) checkRaftMembership(r *replica) {
	if !r.alive || r.removed {
		return
	}
	mem := r.rsm.GetMembership()
	if len(mem.Addresses) == 0 {
		return
	}
	v := r.peer.VerifView()
	eq := func(a []uint64, b map[uint64]string) bool {
		if len(a) != len(b) {
			return false
		}
		for _, x := range a {
			if _, ok := b[x]; !ok {
				return false
			}
		}
		return true
	}
	if !eq(v.Voters, mem.Addresses) || !eq(v.NonVotings, mem.NonVotings) || !eq(v.Witnesses, mem.Witnesses) {
		m.violation("C07", "raft-members-differ-from-applied-membership",
			fmt.Sprintf("replica %d: raft voters %v nonVotings %v witnesses %v, applied membership %v / %v / %v",
				r.id, v.Voters, v.NonVotings, v.Witnesses, keysOf(mem.Addresses), keysOf(mem.NonVotings), keysOf(mem.Witnesses)))
	}
	m.count("raft_membership_checks", 1)
}

func keysOf(mm map[uint64]string) []uint64 {
	out := make([]uint64, 0, len(mm))
	for k := range mm {
		out = append(out, k)
	}
	sort.Slice(out, func(i, j int) bool { return out[i] < out[j] })
	return out
}

func (m *monitors) latestMembership() pb.Membership { return m.latest }

func (m *monitors) someLeader() uint64 {
	best, bt := uint64(0), uint64(0)
	for _, id := range m.s.order {
		r := m.s.replicas[id]
		if r.alive && !r.removed {
			v := r.peer.VerifView()
			if v.Role == "Leader" && v.Term >= bt {
				best, bt = id, v.Term
			}
		}
	}
	return best
}

// checkRoles: after every step, the role of the replica is compatible with
// its kind.
func (m *monitors) checkRoles(r *replica) {
	v := r.peer.VerifView()
	if v.Role == "Leader" || v.Role == "Candidate" || v.Role == "PreVoteCandidate" {
		if contains(v.NonVotings, r.id) || contains(v.Witnesses, r.id) || r.cfg.IsWitness {
			m.violation("C18", "non-voter-in-election-role",
				fmt.Sprintf("replica %d is %s while being a non-voting member or witness", r.id, v.Role))
		}
		if !contains(v.Voters, r.id) && len(v.Voters) > 0 {
			m.violation("C18", "removed-replica-in-election-role",
				fmt.Sprintf("replica %d is %s but not among its own voting members %v", r.id, v.Role, v.Voters))
		}
	}
	m.count("role_checks", 1)
}

// checkCommitQuorum: a commit advance by leader r to (index, term) needs a
// quorum of voters+witnesses holding that entry.
func (m *monitors) checkCommitQuorum(r *replica, index, term uint64) {
	v := r.peer.VerifView()
	t := r.peer.VerifTerm(index)
	if t == 0 {
		return
	}
	voting := append(append([]uint64{}, v.Voters...), v.Witnesses...)
	n := 0
	for _, id := range voting {
		o, ok := m.s.replicas[id]
		if !ok {
			continue
		}
		if o.alive && !o.removed && o.peer.VerifView().LastIndex >= index && o.peer.VerifTerm(index) == t {
			n++
			continue
		}
		if l, ok := m.logs[id]; ok {
			if e, ok := l.ents[index]; ok && e.Term == t {
				n++
			} else if l.snapIndex >= index {
				n++
			}
		}
	}
	if n < v.Quorum {
		m.violation("C18", "commit-without-voting-quorum",
			fmt.Sprintf("leader %d commits index %d (term %d) held by %d of its voting members %v, quorum is %d", r.id, index, t, n, voting, v.Quorum))
	}
	m.count("commit_quorum_checks", 1)
}

// ---------- C01 history / proposals ----------

func (m *monitors) onProposeCall(r *replica, key byte, id uint64) {
	op := linz.Op{ID: len(m.ops), Client: int(r.id), Append: true, Key: string([]byte{'k', '0' + key}), Value: id,
		Call: int64(m.s.stepNo), Outcome: linz.Unknown, Via: fmt.Sprintf("replica %d", r.id)}
	m.ops = append(m.ops, op)
	m.opByKey[id] = op.ID
	m.opOrig[id] = [2]uint64{r.id, uint64(r.incarn)}
	m.count("proposals", 1)
}

func (m *monitors) onReadCall(r *replica, key byte) int {
	op := linz.Op{ID: len(m.ops), Client: int(r.id), Append: false, Key: string([]byte{'k', '0' + key}),
		Call: int64(m.s.stepNo), Outcome: linz.Unknown, Via: fmt.Sprintf("replica %d", r.id)}
	m.ops = append(m.ops, op)
	m.count("reads", 1)
	return op.ID
}

func (m *monitors) onReadDone(r *replica, w *readWait, ok bool, v []uint64) {
	op := &m.ops[w.opID]
	if !ok {
		op.Outcome = linz.Fail
		m.count("reads_dropped", 1)
		return
	}
	op.Outcome = linz.OK
	op.Ret = int64(m.s.stepNo) + 1
	op.Read = append([]uint64(nil), v...)
	m.count("reads_completed", 1)
}

func (m *monitors) onApplyUpdate(r *replica, e pb.Entry, result sm.Result, rejected bool, ignored bool) {
	if ignored || e.Key == 0 {
		return
	}
	oi, ok := m.opByKey[e.Key]
	if !ok {
		return
	}
	orig := m.opOrig[e.Key]
	if orig[0] != r.id || orig[1] != uint64(r.incarn) {
		return
	}
	op := &m.ops[oi]
	if op.Outcome == linz.OK {
		if m.s.opt.AllowDup {
			m.count("noop_session_proposal_applied_twice_under_message_duplication", 1)
			return
		}
		m.violation("C12", "proposal-completed-twice", fmt.Sprintf("proposal %d completed twice at replica %d", e.Key, r.id))
		return
	}
	if op.Outcome == linz.Fail {
		m.violation("C01", "dropped-proposal-applied", fmt.Sprintf("proposal %d was reported dropped at replica %d and is applied", e.Key, r.id))
		return
	}
	op.Outcome = linz.OK
	op.Ret = int64(m.s.stepNo) + 1
	op.Pos = result.Value
	m.count("proposals_completed", 1)
}

func (m *monitors) onDroppedEntry(r *replica, e pb.Entry) {
	if e.Type == pb.ConfigChangeEntry {
		m.count("config_changes_dropped", 1)
		return
	}
	if oi, ok := m.opByKey[e.Key]; ok {
		orig := m.opOrig[e.Key]
		if orig[0] == r.id && orig[1] == uint64(r.incarn) && m.ops[oi].Outcome == linz.Unknown {
			m.ops[oi].Outcome = linz.Fail
			m.count("proposals_dropped", 1)
		}
	}
}

func (m *monitors) onSnapshotSaved(r *replica, ss pb.Snapshot) {
	m.count("snapshots_saved", 1)
	m.flags["snapshot_saved"] = true
}
