package raftsim

import (
	"fmt"
	"os"
	"sort"
	"strings"
	"time"

	"github.com/anishathalye/porcupine"

	pb "github.com/lni/dragonboat/v4/raftpb"
	"github.com/lni/dragonboat/v4/verifh/linz"
)

// Result summarises one execution for the evidence counters.
type Result struct {
	Flags      map[string]bool
	Sig        string
	Steps      int
	Ops        int
	HealRounds int  // rounds the fair phase needed (C17), -1 if it did not converge
	Converged  bool // C17 goals reached within the bound
	// PremiseFailed: not converged, and some running replica operates under a
	// membership without a running majority (C17 promises nothing then)
	PremiseFailed bool
	Panicked      bool
	Leaders       int
	Sample        map[string]interface{}
	HistoryHash   string
}

func (s *Sim) witness(what string) interface{} {
	tail := s.trace
	if len(tail) > 400 {
		tail = tail[len(tail)-400:]
	}
	return map[string]interface{}{
		"options": s.opt, "step": s.stepNo, "what": what, "trace_tail": tail,
		"replay": "the execution is a deterministic function of options (seed, heal seed)",
	}
}

// healGoal drives the bounded-progress check of C17 during the fair phase.
type healGoal struct {
	s           *Sim
	leaderRound int
	propID      uint64
	propVia     uint64
	propAt      int
	readOp      int
	readAt      int
	ccKey       uint64
	ccAt        int
	ccDone      bool
	ccID        uint64
	snapDone    bool
	doneRound   int
	propRetries int
	readRetries int
	ccRetries   int
	why         string
}

func (g *healGoal) members() []uint64 {
	mem := g.s.mon.latestMembership()
	var out []uint64
	for _, id := range g.s.order {
		r := g.s.replicas[id]
		if !r.alive || r.removed {
			continue
		}
		_, a := mem.Addresses[id]
		_, b := mem.NonVotings[id]
		_, c := mem.Witnesses[id]
		if a || b || c {
			out = append(out, id)
		}
	}
	return out
}

func (g *healGoal) clients() []uint64 {
	var out []uint64
	for _, id := range g.members() {
		if !g.s.replicas[id].cfg.IsWitness {
			out = append(out, id)
		}
	}
	return out
}

// premise reports whether C17's premise holds at this moment under every
// membership a running replica still operates under: for each running
// replica with a non-empty voting set (in its raft view), a majority of that
// set is running. (A leader that committed and applied its own removal stops
// at once; if the commit notification was lost, the remaining replicas still
// operate under the old membership, of which the stopped replica is a
// needed member - progress is then not promised by C17.)
func (g *healGoal) premise() (bool, string) {
	s := g.s
	for _, id := range s.order {
		r := s.replicas[id]
		if !r.alive || r.removed {
			continue
		}
		v := r.peer.VerifView()
		voting := append(append([]uint64{}, v.Voters...), v.Witnesses...)
		if len(voting) == 0 {
			continue
		}
		up := 0
		for _, x := range voting {
			if o, ok := s.replicas[x]; ok && o.alive && !o.removed {
				up++
			}
		}
		if up < len(voting)/2+1 {
			return false, fmt.Sprintf("replica %d operates under voting set %v of which only %d run", id, voting, up)
		}
	}
	// A witness votes but can neither lead nor hand out payloads. When the durable log of a
	// running witness is ahead of the log of every running regular voter and the entries in
	// question exist (with payload) only on a replica that was removed from the shard and
	// stopped, no election can succeed and nobody can supply the entries: inherent to witnesses
	// (the removed replica committed them with the witness's acknowledgement), C17 promises
	// nothing. If the entries exist on no replica at all (they were never persisted by their
	// leader) the premise holds and the shard has to make progress.
	latest := s.mon.latestMembership()
	for _, wid := range s.order {
		w := s.replicas[wid]
		if !w.alive || w.removed || !w.cfg.IsWitness {
			continue
		}
		wl := s.mon.log(w)
		if wl.last == 0 {
			continue
		}
		wt := wl.ents[wl.last].Term
		ahead := true
		voters := 0
		for _, id := range s.order {
			r := s.replicas[id]
			if !r.alive || r.removed || r.cfg.IsWitness {
				continue
			}
			// a regular voting member under the latest membership any replica has applied (a
			// replica that joined as non-voting may have been promoted; one that was just added
			// may not have received anything yet: its log is empty and it cannot lead either)
			if _, isVoter := latest.Addresses[id]; !isVoter {
				continue
			}
			l := s.mon.log(r)
			voters++
			lt := l.snapTerm
			if e, ok := l.ents[l.last]; ok {
				lt = e.Term
			}
			li := l.last
			if l.snapIndex > li {
				li = l.snapIndex
			}
			if lt > wt || (lt == wt && li >= wl.last) {
				ahead = false
			}
		}
		if !ahead || voters == 0 {
			continue
		}
		for _, id := range s.order {
			r := s.replicas[id]
			if os.Getenv("VERIF_DEBUG") != "" {
				rl := s.mon.log(r)
				fmt.Fprintf(os.Stderr, "premise: witness %d last %d term %d; replica %d removed=%v alive=%v log last %d snap %d has=%v\n", wid, wl.last, wt, id, r.removed, r.alive, rl.last, rl.snapIndex, rl.ents[wl.last])
			}
			if !r.removed {
				continue
			}
			rl := s.mon.log(r)
			if e, ok := rl.ents[wl.last]; (ok && e.Term == wt) || rl.snapIndex >= wl.last {
				return false, fmt.Sprintf("witness %d holds entry %d (term %d) that no running voter has; its payload exists only on removed replica %d", wid, wl.last, wt, id)
			}
		}
	}
	return true, ""
}

// each is called after every fair round; returns true when all goals hold.
func (g *healGoal) each(round int) bool {
	s := g.s
	retryAfter := int(3 * s.opt.ElectionRTT)
	l := s.mon.someLeader()
	if l == 0 {
		g.why = "no leader;"
		for _, id := range s.order {
			r := s.replicas[id]
			if r.alive && !r.removed {
				v := r.peer.VerifView()
				g.why += fmt.Sprintf(" [%d %s t%d c%d l%d voters%v nv%v w%v pcc=%v applied=%d]", id, v.Role, v.Term, v.Committed, v.LastIndex, v.Voters, v.NonVotings, v.Witnesses, v.PendingConfigChange, r.rsm.GetLastApplied())
			} else {
				g.why += fmt.Sprintf(" [%d alive=%v removed=%v]", id, r.alive, r.removed)
			}
		}
		return false
	}
	if g.leaderRound < 0 {
		g.leaderRound = round
	}
	cl := g.clients()
	if len(cl) == 0 {
		g.why = "no client-capable member"
		return false
	}
	// proposal
	if g.propID == 0 || s.mon.ops[s.mon.opByKey[g.propID]].Outcome == linz.Fail ||
		(s.mon.ops[s.mon.opByKey[g.propID]].Outcome == linz.Unknown && round-g.propAt > retryAfter) {
		r := s.replicas[cl[(round+g.propRetries)%len(cl)]]
		s.actPropose(r)
		g.propID = s.nextKey
		g.propVia = r.id
		g.propAt = round
		g.propRetries++
	}
	propOK := s.mon.ops[s.mon.opByKey[g.propID]].Outcome == linz.OK
	// read
	if g.readOp < 0 || s.mon.ops[g.readOp].Outcome == linz.Fail ||
		(s.mon.ops[g.readOp].Outcome == linz.Unknown && round-g.readAt > retryAfter) {
		r := s.replicas[cl[(round+1+g.readRetries)%len(cl)]]
		n := len(s.mon.ops)
		s.actRead(r)
		g.readOp = n
		g.readAt = round
		g.readRetries++
	}
	readOK := s.mon.ops[g.readOp].Outcome == linz.OK
	// membership change: add a fresh non-voting id (never started: it cannot
	// affect any quorum)
	if !g.ccDone {
		if g.ccKey == 0 || round-g.ccAt > retryAfter {
			if g.ccID == 0 {
				g.ccID = 7000 + uint64(s.rng.Intn(1000))
			}
			r := s.replicas[cl[(round+2+g.ccRetries)%len(cl)]]
			s.nextKey++
			g.ccKey = s.nextKey
			mem := s.mon.latestMembership()
			r.pendingCC = append(r.pendingCC, ccReq{
				cc:  pb.ConfigChange{Type: pb.AddNonVoting, ReplicaID: g.ccID, Address: fmt.Sprintf("h%d", g.ccID), ConfigChangeId: mem.ConfigChangeId},
				key: g.ccKey,
			})
			g.ccAt = round
			g.ccRetries++
		}
		if _, ok := s.mon.latestMembership().NonVotings[g.ccID]; ok {
			g.ccDone = true
		}
	}
	// snapshot request on the leader
	if !g.snapDone && propOK {
		lr := s.replicas[l]
		s.guard(lr, "snapshot", func() {
			if lr.takeSnapshot() {
				g.snapDone = true
			}
		})
	}
	// catch-up of every running member
	caught := true
	lc := s.replicas[l].peer.VerifView().Committed
	lag := ""
	for _, id := range g.members() {
		r := s.replicas[id]
		if r.rsm.GetLastApplied() < lc {
			caught = false
			lag = fmt.Sprintf("replica %d applied %d < leader commit %d", id, r.rsm.GetLastApplied(), lc)
			break
		}
	}
	if propOK && readOK && g.ccDone && g.snapDone && caught {
		g.doneRound = round
		return true
	}
	g.why = fmt.Sprintf("leader %d proposal=%v read=%v configchange=%v snapshot=%v caughtup=%v %s", l, propOK, readOK, g.ccDone, g.snapDone, caught, lag)
	return false
}

// RunCase executes one case: fault prefix, fair phase, final checks.
func RunCase(opt Options, sink Sink, traceOn bool) (res Result) {
	s := NewSim(opt, sink)
	s.traceOn = traceOn
	// real log stores (Options.RealStore) hold memory and goroutines: closed with the case
	defer func() {
		for _, r := range s.replicas {
			if r.store != nil && r.store.real != nil {
				_ = r.store.real.Close()
				r.store.real = nil
			}
		}
	}()
	res.Flags = s.mon.flags
	defer func() {
		if x := recover(); x != nil {
			// a panic outside a guarded replica action: harness failure
			panic(x)
		}
	}()
	for i := 0; i < opt.Steps; i++ {
		s.Step()
		if i%256 == 255 {
			s.mon.checkLogMatching()
		}
		if s.mon.flags["panic"] {
			break
		}
	}
	res.Steps = s.stepNo
	s.mon.checkLogMatching()
	if s.mon.flags["panic"] {
		res.Panicked = true
		res.Sig = fmt.Sprintf("%x", s.mon.sig)
		return res
	}
	// fair phase
	g := &healGoal{s: s, leaderRound: -1, readOp: -1, doneRound: -1}
	rounds := opt.HealRounds * int(opt.ElectionRTT)
	s.Heal(rounds, g.each)
	if s.mon.flags["panic"] {
		res.Panicked = true
		res.Sig = fmt.Sprintf("%x", s.mon.sig)
		return res
	}
	res.Converged = g.doneRound >= 0
	res.HealRounds = g.doneRound
	if !res.Converged {
		res.Sample = map[string]interface{}{"not_converged": g.why}
		if ok, why := g.premise(); !ok {
			res.PremiseFailed = true
			res.Sample["premise_not_met"] = why
		}
	}
	// let everything settle for the final comparisons
	s.Heal(6*int(opt.ElectionRTT), nil)
	s.mon.checkLogMatching()
	s.mon.finalChecks(&res)
	res.Sig = fmt.Sprintf("%x", s.mon.sig)
	res.Leaders = len(s.mon.leaderOf)
	res.Ops = len(s.mon.ops)
	if res.Sample == nil {
		res.Sample = map[string]interface{}{}
	}
	res.Sample["options"] = opt
	res.Sample["terms_with_leader"] = len(s.mon.leaderOf)
	res.Sample["max_commit"] = s.mon.maxCommit
	res.Sample["heal_rounds"] = g.doneRound
	res.Sample["history_ops"] = len(s.mon.ops)
	if p := os.Getenv("VERIF_TRACE_OUT"); p != "" && len(s.trace) > 0 {
		_ = os.WriteFile(p, []byte(strings.Join(s.trace, "\n")+"\n"), 0o644)
	}
	if len(s.trace) > 0 {
		t := s.trace
		if len(t) > 25 {
			t = t[:25]
		}
		res.Sample["trace_head"] = t
	}
	return res
}

// finalChecks: replicas that reached the same applied index hold identical
// state, and the client history is linearizable (C01).
func (m *monitors) finalChecks(res *Result) {
	s := m.s
	type fin struct {
		id      uint64
		applied uint64
		lists   map[string][]uint64
	}
	var fs []fin
	for _, id := range s.order {
		r := s.replicas[id]
		if !r.alive || r.removed || r.cfg.IsWitness {
			continue
		}
		f := fin{id: id, applied: r.rsm.GetLastApplied(), lists: map[string][]uint64{}}
		for k := 0; k < s.opt.Keys; k++ {
			v, err := r.rsm.Lookup(byte(k))
			if err == nil {
				f.lists[string([]byte{'k', '0' + byte(k)})] = v.([]uint64)
			}
		}
		fs = append(fs, f)
	}
	if len(fs) == 0 {
		return
	}
	sort.Slice(fs, func(i, j int) bool { return fs[i].applied > fs[j].applied })
	best := fs[0]
	for _, f := range fs[1:] {
		for k, l := range f.lists {
			bl := best.lists[k]
			if len(l) > len(bl) {
				m.violation("C02", "final-state-not-prefix", fmt.Sprintf("replica %d (applied %d) has a longer list for %s than replica %d (applied %d)", f.id, f.applied, k, best.id, best.applied))
				continue
			}
			for i := range l {
				if l[i] != bl[i] {
					m.violation("C02", "final-state-diverged", fmt.Sprintf("replicas %d and %d differ at position %d of %s", f.id, best.id, i+1, k))
					break
				}
			}
		}
	}
	// the linearizability decision uses the most advanced replica's lists; an
	// acknowledged write must be there
	if best.applied < m.maxCommit {
		m.count("final_not_fully_applied", 1)
		return
	}
	an := linz.Check(m.ops, best.lists)
	for _, a := range an {
		if s.opt.AllowDup && a.Kind == "duplicate-apply" {
			// a duplicated Propose message of a NoOP-session proposal is applied twice by
			// design (at-least-once); only the C01 mode, without duplication, decides this
			m.count("noop_session_duplicates_under_message_duplication", 1)
			continue
		}
		m.sink.Violation("C01", "history:"+a.Kind, a.What, map[string]interface{}{
			"anomaly": a, "options": s.opt, "final": best.lists,
			"replay": "the execution is a deterministic function of options",
		})
	}
	m.count("histories_checked", 1)
	m.count("history_ops", int64(len(m.ops)))
	nOK := 0
	for _, o := range m.ops {
		if o.Outcome == linz.OK {
			nOK++
		}
	}
	m.count("history_ops_completed", int64(nOK))
	if m.s.opt.Porcupine && porcupineFeasible(m.ops, best.lists) {
		pr, desc := linz.Porcupine(m.ops, best.lists, 3*time.Second)
		switch pr {
		case porcupine.Illegal:
			if len(an) == 0 {
				m.sink.Violation("C01", "history:porcupine-illegal", desc, map[string]interface{}{"options": s.opt, "ops": m.ops, "final": best.lists})
			}
			m.count("porcupine_illegal", 1)
		case porcupine.Unknown:
			m.count("porcupine_unknown", 1)
		default:
			m.count("porcupine_ok", 1)
			if len(an) > 0 {
				m.count("porcupine_disagrees_with_oracle", 1)
			}
		}
	}
	overlapW, overlapRW := false, false
	for i := 0; i < len(m.ops) && !(overlapW && overlapRW); i++ {
		a := m.ops[i]
		if a.Outcome != linz.OK {
			continue
		}
		for j := i + 1; j < len(m.ops); j++ {
			b := m.ops[j]
			if b.Outcome != linz.OK || b.Key != a.Key {
				continue
			}
			if a.Call < b.Ret && b.Call < a.Ret {
				if a.Append && b.Append {
					overlapW = true
				} else if a.Append != b.Append {
					overlapRW = true
				}
			}
		}
	}
	if overlapW {
		m.flags["overlapping_writes"] = true
	}
	if overlapRW {
		m.flags["read_overlaps_write"] = true
	}
	res.HistoryHash = fmt.Sprintf("%x", m.sig)
}

// porcupineFeasible bounds the cost of the cross-check: operations with an
// unknown outcome stay open to the end of the history and make the search
// exponential.
func porcupineFeasible(ops []linz.Op, final map[string][]uint64) bool {
	present := map[uint64]bool{}
	for _, l := range final {
		for _, id := range l {
			present[id] = true
		}
	}
	open, ok := 0, 0
	for _, o := range ops {
		if o.Outcome == linz.Unknown && o.Append && present[o.Value] {
			open++
		}
		if o.Outcome == linz.OK {
			ok++
		}
	}
	return open <= 6 && ok <= 400
}
