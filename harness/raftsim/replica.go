package raftsim

import (
	"errors"
	"fmt"
	"math/rand"
	"sort"

	dragonboat "github.com/lni/dragonboat/v4"
	"github.com/lni/dragonboat/v4/config"
	"github.com/lni/dragonboat/v4/internal/logdb"
	"github.com/lni/dragonboat/v4/internal/raft"
	"github.com/lni/dragonboat/v4/internal/rsm"
	"github.com/lni/dragonboat/v4/internal/server"
	pb "github.com/lni/dragonboat/v4/raftpb"
	sm "github.com/lni/dragonboat/v4/statemachine"
)

// crash points inside one step of the mini-node (mirrors processSteps)
const (
	cpNone           = 0
	cpAfterReplicate = 1 // Replicate messages sent, nothing saved
	cpAfterSave      = 2 // saved, no other message sent, update not committed to raft
	cpAfterSend      = 3 // saved and sent, update not committed to raft
)

type ccReq struct {
	cc  pb.ConfigChange
	key uint64
}

type readWait struct {
	ctx    pb.SystemCtx
	issued int    // sim step at which the read was handed to raft
	ready  bool   // ReadyToRead received
	index  uint64 // read index
	opID   int    // history op id
	key    byte
}

// replica is one simulated node: durable part (store) + volatile part.
type replica struct {
	sim     *Sim
	id      uint64
	cfg     config.Config
	addr    string
	store   *memStore
	alive   bool
	removed bool // self-removal applied: stopped for good
	// lastStep: the step worker iteration that overlaps the removal is still to run
	lastStep bool
	incarn   int
	joined   bool // started with join=true (added later)
	// bootstrap is the durable bootstrap record (initial members)
	bootstrap map[uint64]string

	peer  raft.Peer
	lr    *logdb.LogReader
	rsm   *rsm.StateMachine
	user  *kvSM
	snap  *memSnapshotter
	stopc chan struct{}

	inbox        []pb.Message
	pendingProps []pb.Entry
	pendingCC    []ccReq
	pendingReads []*readWait // not yet handed to raft
	waitingReads map[pb.SystemCtx][]*readWait
	transferTo   uint64

	inCCStep bool       // a step running inside ApplyConfigChange (Options.StepDuringCC)
	ccRng    *rand.Rand // own stream: the scheduler's stream is the same with and without the option

	pushedIndex    uint64
	appliedIndex   uint64
	confirmedIndex uint64
	ssIndex        uint64
	ssReqIndex     uint64
	compactLogTo   uint64
	ctxSeq         uint64
	tickCount      uint64
}

// ---- rsm.INode ----

func (r *replica) StepReady()                  {}
func (r *replica) ReplicaID() uint64           { return r.id }
func (r *replica) ShardID() uint64             { return r.cfg.ShardID }
func (r *replica) ShouldStop() <-chan struct{} { return r.stopc }

func (r *replica) ApplyUpdate(e pb.Entry, result sm.Result, rejected bool, ignored bool, notifyRead bool) {
	if r.cfg.IsWitness {
		return
	}
	r.sim.mon.onApplyUpdate(r, e, result, rejected, ignored)
}

func (r *replica) ApplyConfigChange(cc pb.ConfigChange, key uint64, rejected bool) error {
	r.sim.mon.onConfigChange(r, cc, key, rejected)
	if r.sim.opt.StepDuringCC && !r.inCCStep && r.alive && !r.removed {
		if r.ccRng == nil {
			r.ccRng = rand.New(rand.NewSource(r.sim.opt.Seed ^ int64(r.id)<<20 ^ 0x5cc))
		}
		if r.ccRng.Intn(4) == 0 {
			// the apply worker is here (node.ApplyConfigChange, waiting for raftMu) while the step
			// worker, which holds it, runs an iteration: ticks that piled up, whatever is in the inbox
			r.inCCStep = true
			for k := r.ccRng.Intn(2 * int(r.sim.opt.ElectionRTT)); k > 0; k-- {
				r.inbox = append(r.inbox, pb.Message{Type: pb.LocalTick})
			}
			r.sim.mon.count("steps_between_rsm_and_config_change_handover", 1)
			r.step(cpNone)
			r.inCCStep = false
			if !r.alive {
				return nil
			}
		}
	}
	if !rejected {
		if err := r.peer.ApplyConfigChange(cc); err != nil {
			return err
		}
		if cc.Type == pb.RemoveNode && cc.ReplicaID == r.id {
			r.selfRemoved()
		}
	}
	if r.cfg.IsWitness {
		return nil
	}
	if rejected {
		if err := r.peer.RejectConfigChange(); err != nil {
			return err
		}
	}
	return nil
}

func (r *replica) RestoreRemotes(ss pb.Snapshot) error {
	if ss.Membership.ConfigChangeId == 0 {
		panic("invalid ConfChangeId")
	}
	for nid := range ss.Membership.Removed {
		if nid == r.id {
			r.selfRemoved()
		}
	}
	return r.peer.RestoreRemotes(ss)
}

func (r *replica) selfRemoved() {
	if !r.removed {
		r.removed = true
		// node.requestRemoval stops the node from the apply worker; the step worker may be in
		// the middle of an iteration with messages it already took from the queue: one more
		// step over what is in the inbox now (nothing is delivered to a removed replica)
		r.lastStep = len(r.inbox) > 0
		r.sim.mon.count("self_removed", 1)
	}
}

// ---- server.IRaftEventListener ----

func (r *replica) LeaderUpdated(info server.LeaderInfo)      { r.sim.mon.onLeaderUpdated(r, info) }
func (r *replica) CampaignLaunched(info server.CampaignInfo) { r.sim.mon.onCampaign(r, info) }
func (r *replica) CampaignSkipped(info server.CampaignInfo)  { r.sim.mon.count("campaign_skipped", 1) }
func (r *replica) SnapshotRejected(info server.SnapshotInfo) { r.sim.mon.count("snapshot_rejected", 1) }
func (r *replica) ReplicationRejected(info server.ReplicationInfo) {
	r.sim.mon.count("replication_rejected", 1)
}
func (r *replica) ProposalDropped(info server.ProposalInfo) {
	r.sim.mon.count("proposal_dropped_evt", 1)
}
func (r *replica) ReadIndexDropped(info server.ReadIndexInfo) {
	r.sim.mon.count("readindex_dropped_evt", 1)
}

// start (re)builds the volatile part from the durable store exactly as
// newNode + startRaft + replayLog + the initial recover task do.
func (r *replica) start(initialMembers map[uint64]string, initial bool) {
	r.incarn++
	r.alive = true
	r.stopc = make(chan struct{})
	r.inbox = nil
	r.pendingProps = nil
	r.pendingCC = nil
	r.pendingReads = nil
	r.waitingReads = map[pb.SystemCtx][]*readWait{}
	r.transferTo = 0
	r.pushedIndex, r.appliedIndex, r.confirmedIndex = 0, 0, 0
	r.ssIndex, r.ssReqIndex, r.compactLogTo = 0, 0, 0
	r.store.openReal() // a restart reopens a real log store (nothing cached survives)
	r.lr = logdb.NewLogReader(r.cfg.ShardID, r.id, r.store)
	r.snap = &memSnapshotter{st: r.store, lrf: func() pb.Snapshot { return r.lr.Snapshot() }}
	r.lr.SetCompactor(r.snap)
	r.user = newKVSM()
	r.user.onUpd = func(index uint64, cmd []byte) { r.sim.mon.onUserUpdate(r, index, cmd) }
	native := rsm.NewNativeSM(r.cfg, rsm.NewInMemStateMachine(r.user), r.stopc)
	r.rsm = rsm.NewStateMachine(native, r.snap, r.cfg, r, nil)

	// replayLog
	newNode := false
	ss, _ := r.store.GetSnapshot(r.cfg.ShardID, r.id)
	if !pb.IsEmptySnapshot(ss) {
		if err := r.lr.ApplySnapshot(ss); err != nil {
			panic(fmt.Sprintf("replayLog ApplySnapshot: %v", err))
		}
	}
	rs, err := r.store.ReadRaftState(r.cfg.ShardID, r.id, ss.Index)
	if err != nil {
		newNode = true
	} else {
		hasRaftState := !pb.IsEmptyState(rs.State)
		if hasRaftState {
			r.lr.SetState(rs.State)
		}
		r.lr.SetRange(rs.FirstIndex, rs.EntryCount)
		newNode = ss.Index <= 0 && rs.EntryCount <= 0 && !hasRaftState
		if r.store.real != nil {
			r.sim.mon.onRecoveredFromRealStore(r, rs)
		}
	}
	// the bootstrap record (saved before the first launch) gives the same
	// members and join flag on every start
	if initialMembers != nil {
		r.bootstrap = initialMembers
	}
	initial = !r.joined
	pas := make([]raft.PeerAddress, 0)
	if initial {
		for k, v := range r.bootstrap {
			pas = append(pas, raft.PeerAddress{ReplicaID: k, Address: v})
		}
	}
	r.peer = raft.Launch(r.cfg, r.lr, r, pas, initial, newNode)
	r.sim.mon.onStart(r, newNode)

	// the initial recover task (node.recover with rec.Initial)
	rss, err := r.rsm.Recover(rsm.Task{Recover: true, Initial: true, NewNode: newNode})
	if err != nil {
		panic(fmt.Sprintf("initial recover failed: %v", err))
	}
	if !pb.IsEmptySnapshot(rss) {
		must(rss.Unref())
		r.compactLog(rss.Index)
	}
	// setInitialStatus
	r.ssIndex = rss.Index
	r.pushedIndex = rss.Index
	r.sim.mon.onStarted(r, rss.Index)
}

func (r *replica) crash() {
	if !r.alive {
		return
	}
	r.alive = false
	close(r.stopc)
	r.peer = raft.Peer{}
	r.lr = nil
	r.rsm = nil
	r.user = nil
	r.snap = nil
	r.inbox = nil
	// reads and proposals in flight at this replica have unknown outcome
	r.sim.mon.onCrash(r)
}

func (r *replica) compactLog(index uint64) {
	if index > r.cfg.CompactionOverhead {
		r.compactLogTo = index - r.cfg.CompactionOverhead
	}
}

func isSoftSnapshotError(err error) bool {
	return errors.Is(err, raft.ErrCompacted) || errors.Is(err, raft.ErrSnapshotOutOfDate)
}

// step is one iteration of the step worker for this node: stepNode followed
// by the per-node part of engine.processSteps. crashAt selects a crash point.
// It returns true if the replica crashed inside the step.
func (r *replica) step(crashAt int) bool {
	if !r.alive || (r.removed && !r.lastStep) {
		return false
	}
	if r.lastStep {
		r.lastStep = false
		r.sim.mon.count("steps_overlapping_self_removal", 1)
	}
	r.sim.mon.onStepBegin(r)
	// ---- node.handleEvents ----
	hasEvent := false
	r.appliedIndex = r.rsm.GetLastApplied()
	r.peer.NotifyRaftLastApplied(r.appliedIndex)
	if r.appliedIndex != r.confirmedIndex {
		hasEvent = true
	}
	if r.peer.HasEntryToApply() {
		hasEvent = true
	}
	// handleReadIndex: all queued reads share one ctx
	if len(r.pendingReads) > 0 {
		r.ctxSeq++
		ctx := pb.SystemCtx{Low: r.ctxSeq, High: r.id<<32 | uint64(r.incarn)}
		for _, rw := range r.pendingReads {
			rw.ctx = ctx
		}
		r.waitingReads[ctx] = r.pendingReads
		r.sim.mon.onReadIssued(r, ctx, len(r.pendingReads))
		r.pendingReads = nil
		must(r.peer.ReadIndex(ctx))
		hasEvent = true
	}
	// handleReceivedMessages
	msgs := r.inbox
	r.inbox = nil
	for _, m := range msgs {
		switch m.Type {
		case pb.LocalTick:
			r.tickCount++
			must(r.peer.Tick())
		case pb.SnapshotStatus:
			must(r.peer.ReportSnapshotStatus(m.From, m.Reject))
		case pb.Unreachable:
			must(r.peer.ReportUnreachableNode(m.From))
		default:
			r.sim.mon.onHandle(r, m)
			must(r.peer.Handle(m))
		}
	}
	if len(msgs) > 0 {
		hasEvent = true
	}
	// handleConfigChange: one request per step (configChangeC has capacity 1)
	if len(r.pendingCC) > 0 {
		req := r.pendingCC[0]
		r.pendingCC = r.pendingCC[1:]
		must(r.peer.ProposeConfigChange(req.cc, req.key))
		hasEvent = true
	}
	// handleProposals (node.go: not while the replica is rate limited)
	if len(r.pendingProps) > 0 && r.cfg.MaxInMemLogSize > 0 && r.peer.RateLimited() {
		r.sim.mon.count("steps_with_proposals_held_back_by_the_rate_limit", 1)
		if len(r.pendingProps) > 64 {
			// the incoming queue is bounded: the oldest requests would have been refused (ErrSystemBusy)
			r.pendingProps = r.pendingProps[len(r.pendingProps)-64:]
		}
	} else if len(r.pendingProps) > 0 {
		ents := r.pendingProps
		r.pendingProps = nil
		must(r.peer.ProposeEntries(ents))
		hasEvent = true
	}
	// handleLeaderTransfer
	if r.transferTo != 0 {
		t := r.transferTo
		r.transferTo = 0
		must(r.peer.RequestLeaderTransfer(t))
		hasEvent = true
	}
	if r.compactLogTo > 0 {
		hasEvent = true
	}
	if hasEvent {
		r.releaseReads()
	}
	if !hasEvent {
		return false
	}
	// ---- node.getUpdate ----
	moreEntries := r.rsm.TaskQ().MoreEntryToApply()
	if !(r.peer.HasUpdate(moreEntries) || r.confirmedIndex != r.appliedIndex || r.compactLogTo > 0) {
		return false
	}
	if r.appliedIndex < r.confirmedIndex {
		panic(fmt.Sprintf("applied index moving backwards, %d, now %d", r.confirmedIndex, r.appliedIndex))
	}
	ud, err := r.peer.GetUpdate(moreEntries, r.appliedIndex)
	must(err)
	r.confirmedIndex = r.appliedIndex
	// raft iterates over Go maps when broadcasting, so the order of messages to
	// different destinations is arbitrary; fix it (stable, per destination
	// order kept) to keep the simulation a function of the seed
	sort.SliceStable(ud.Messages, func(i, j int) bool { return ud.Messages[i].To < ud.Messages[j].To })
	r.sim.mon.onUpdate(r, &ud)

	// ---- engine.processSteps ----
	if ud.FastApply {
		r.processSnapshot(ud)
		r.applyRaftUpdates(ud)
	}
	// node.sendReplicateMessages: Replicate messages go out before the update
	// is persisted unless the leadership just changed or they may be addressed
	// to a witness; their commit index is capped at what has been persisted
	// locally. The rules themselves are node.go's (exported under the verif tag).
	sendReplicate := func() {
		_, persisted := r.lr.GetRange()
		for _, m := range ud.Messages {
			if dragonboat.VerifIsFreeOrderMessage(m) && !dragonboat.VerifReplicateToWitness(m) {
				m.ShardID = r.cfg.ShardID
				if m.Type == pb.Replicate && m.Commit > persisted {
					m.Commit = persisted
				}
				r.sim.send(r, m)
			}
		}
	}
	replicateAfterPersist := dragonboat.VerifReplicateAfterPersist(ud)
	if !replicateAfterPersist {
		sendReplicate()
	}
	r.processReadyToRead(ud)
	for _, e := range ud.DroppedEntries {
		r.sim.mon.onDroppedEntry(r, e)
	}
	for _, ctx := range ud.DroppedReadIndexes {
		r.readsDropped(ctx)
	}
	if crashAt == cpAfterReplicate {
		r.crash()
		return true
	}
	must(r.store.SaveRaftState([]pb.Update{ud}, 1))
	r.sim.mon.onSaved(r, &ud)
	if crashAt == cpAfterSave {
		r.crash()
		return true
	}
	if !ud.FastApply {
		r.processSnapshot(ud)
		r.applyRaftUpdates(ud)
	}
	// node.processRaftUpdate
	must(r.lr.Append(ud.EntriesToSave))
	if replicateAfterPersist {
		sendReplicate()
	}
	// node.sendWitnessReplicateMessages
	for _, m := range ud.Messages {
		if dragonboat.VerifReplicateToWitness(m) {
			m.ShardID = r.cfg.ShardID
			r.sim.send(r, m)
		}
	}
	// node.sendMessages
	for _, m := range ud.Messages {
		if !dragonboat.VerifIsFreeOrderMessage(m) {
			m.ShardID = r.cfg.ShardID
			r.sim.send(r, m)
		}
	}
	if crashAt == cpAfterSend {
		r.crash()
		return true
	}
	r.removeLog()
	// node.commitRaftUpdate
	r.peer.Commit(ud)
	r.sim.mon.onStepEnd(r)
	return false
}

func must(err error) {
	if err != nil {
		panic(fmt.Sprintf("raft returned error: %v", err))
	}
}

func (r *replica) processSnapshot(ud pb.Update) {
	if pb.IsEmptySnapshot(ud.Snapshot) {
		return
	}
	ss := ud.Snapshot
	if err := r.lr.ApplySnapshot(ss); err != nil && !isSoftSnapshotError(err) {
		panic(fmt.Sprintf("failed to apply snapshot: %v", err))
	}
	if ss.Index < r.pushedIndex || ss.Index < r.ssIndex || ss.Index < ud.LastApplied {
		panic(fmt.Sprintf("out of date snapshot, index %d, pushed %d, applied %d, ss %d",
			ss.Index, r.pushedIndex, ud.LastApplied, r.ssIndex))
	}
	r.rsm.TaskQ().Add(rsm.Task{Recover: true, Index: ss.Index})
	r.ssIndex = ss.Index
	r.pushedIndex = ss.Index
	r.sim.mon.onSnapshotPushed(r, ss)
}

func (r *replica) applyRaftUpdates(ud pb.Update) {
	ents := pb.EntriesToApply(ud.CommittedEntries, r.pushedIndex, true)
	if len(ents) == 0 {
		return
	}
	r.sim.mon.onPush(r, ents)
	r.rsm.TaskQ().Add(rsm.Task{Entries: ents})
	r.pushedIndex = ents[len(ents)-1].Index
}

func (r *replica) removeLog() {
	if r.compactLogTo == 0 {
		return
	}
	compactTo := r.compactLogTo
	r.compactLogTo = 0
	if err := r.lr.Compact(compactTo); err != nil {
		if err != raft.ErrCompacted {
			panic(fmt.Sprintf("logreader compact: %v", err))
		}
	}
	r.sim.mon.onCompact(r, compactTo)
	must(r.store.RemoveEntriesTo(r.cfg.ShardID, r.id, compactTo))
}

// apply is one iteration of the apply worker for this node (processApplies),
// with the snapshot worker's job done inline when a snapshot task comes out.
func (r *replica) apply() {
	if !r.alive {
		return
	}
	for guard := 0; guard < 64; guard++ {
		t, err := r.rsm.Handle(make([]rsm.Task, 0, 8), make([]sm.Entry, 0, 8))
		if err != nil {
			panic(fmt.Sprintf("rsm.Handle: %v", err))
		}
		if !t.IsSnapshotTask() {
			break
		}
		if t.Recover {
			ss, err := r.rsm.Recover(t)
			if err != nil {
				if errors.Is(err, raft.ErrSnapshotOutOfDate) || errors.Is(err, sm.ErrSnapshotStopped) {
					continue
				}
				panic(fmt.Sprintf("recover failed: %v", err))
			}
			if !pb.IsEmptySnapshot(ss) {
				must(ss.Unref())
				r.sim.mon.onRecovered(r, ss)
				r.compactLog(ss.Index)
			}
		} else {
			panic("raftsim harness: unexpected snapshot task")
		}
	}
	r.sim.mon.onApplied(r)
	r.releaseReads()
}

// takeSnapshot is node.doSave done by the snapshot worker.
func (r *replica) takeSnapshot() bool {
	if !r.alive || r.removed || r.cfg.IsWitness {
		return false
	}
	if r.rsm.GetLastApplied() <= r.ssIndex {
		return false
	}
	ss, _, err := r.rsm.Save(rsm.SSRequest{})
	if err != nil {
		if isSoftSnapshotError(err) {
			return false
		}
		panic(fmt.Sprintf("save snapshot failed: %v", err))
	}
	// snapshotter.Commit: record in the log store
	must(r.store.SaveSnapshots([]pb.Update{{ShardID: r.cfg.ShardID, ReplicaID: r.id, Snapshot: ss}}))
	if err := r.lr.CreateSnapshot(ss); err != nil {
		if isSoftSnapshotError(err) {
			return false
		}
		panic(fmt.Sprintf("create snapshot failed: %v", err))
	}
	r.compactLog(ss.Index)
	r.ssIndex = ss.Index
	r.sim.mon.onSnapshotSaved(r, ss)
	return true
}

func (r *replica) processReadyToRead(ud pb.Update) {
	for _, rtr := range ud.ReadyToReads {
		r.sim.mon.onReadReady(r, rtr)
		if ws, ok := r.waitingReads[rtr.SystemCtx]; ok {
			for _, w := range ws {
				w.ready = true
				w.index = rtr.Index
			}
		}
	}
	if len(ud.ReadyToReads) > 0 {
		r.releaseReads()
	}
}

func (r *replica) readsDropped(ctx pb.SystemCtx) {
	if ws, ok := r.waitingReads[ctx]; ok {
		for _, w := range ws {
			r.sim.mon.onReadDone(r, w, false, nil)
		}
		delete(r.waitingReads, ctx)
	}
	r.sim.mon.count("reads_dropped_ctx", 1)
}

// releaseReads completes reads whose index has been applied locally, as
// pendingReadIndex.applied does, then performs the Lookup.
func (r *replica) releaseReads() {
	if !r.alive {
		return
	}
	applied := r.rsm.GetLastApplied()
	ctxs := make([]pb.SystemCtx, 0, len(r.waitingReads))
	for ctx := range r.waitingReads {
		ctxs = append(ctxs, ctx)
	}
	sort.Slice(ctxs, func(i, j int) bool { return ctxs[i].Low < ctxs[j].Low })
	for _, ctx := range ctxs {
		ws := r.waitingReads[ctx]
		if len(ws) == 0 || !ws[0].ready || ws[0].index > applied {
			continue
		}
		for _, w := range ws {
			v, err := r.rsm.Lookup(w.key)
			if err != nil {
				r.sim.mon.onReadDone(r, w, false, nil)
				continue
			}
			r.sim.mon.onReadDone(r, w, true, v.([]uint64))
		}
		delete(r.waitingReads, ctx)
	}
}
